import BtcModel.Lemmas.AddrParse

/-
  Base-58 for `Model/AddrParse.lean`: positional numerals in a base `b ≥ 2` (`digitsBE`, the
  recursion of `b58Digits` / `natBytes`), `base58::decode ∘ encode = id` and `encode ∘ decode = id`
  (a base-58 string and a byte string determine each other), SHA-256 output is 32 bytes.
-/
namespace Btc.AddrParse
open Btc.BlockCodec Btc.TxCodec Btc.Merkle

/-! ## Positional numerals -/

/-- value of big-endian digits in base `b` -/
def valB (b : Nat) (ds : List Nat) : Nat := ds.foldl (fun acc d => acc * b + d) 0

theorem b58Val_eq (ds : List Nat) : b58Val ds = valB 58 ds := rfl

theorem ofBeBytes_eq (bs : List Nat) : Btc.Merkle.ofBeBytes bs = valB 256 bs := rfl

theorem b58Digits_eq (fuel n : Nat) (acc : List Nat) : b58Digits fuel n acc = digitsBE 58 fuel n acc := by
  induction fuel generalizing n acc with
  | zero => rfl
  | succ f ih => simp only [b58Digits, digitsBE, ih]

theorem foldl_valB (b : Nat) (ds : List Nat) (a : Nat) :
    ds.foldl (fun acc d => acc * b + d) a = a * b ^ ds.length + valB b ds := by
  induction ds generalizing a with
  | nil => simp [valB]
  | cons d ds ih =>
    simp only [List.foldl_cons, valB, List.length_cons]
    rw [ih (a * b + d), ih (0 * b + d)]
    simp only [Nat.zero_mul, Nat.zero_add, valB, Nat.pow_succ, Nat.add_mul]
    rw [Nat.mul_assoc a, Nat.mul_comm b (b ^ ds.length)]
    omega

theorem valB_cons (b d : Nat) (ds : List Nat) : valB b (d :: ds) = d * b ^ ds.length + valB b ds := by
  show List.foldl (fun acc d => acc * b + d) (0 * b + d) ds = _
  rw [Nat.zero_mul, Nat.zero_add]
  exact foldl_valB b ds d

theorem valB_nil (b : Nat) : valB b [] = 0 := rfl

theorem valB_lt (b : Nat) (ds : List Nat) (h : ∀ d ∈ ds, d < b) : valB b ds < b ^ ds.length := by
  induction ds with
  | nil => simp [valB]
  | cons d ds ih =>
    rw [valB_cons, List.length_cons, Nat.pow_succ]
    have h1 := ih (fun x hx => h x (List.mem_cons_of_mem _ hx))
    have h2 : d + 1 ≤ b := h d List.mem_cons_self
    have h3 : (d + 1) * b ^ ds.length ≤ b * b ^ ds.length := Nat.mul_le_mul_right _ h2
    rw [Nat.add_mul, Nat.one_mul] at h3
    rw [Nat.mul_comm (b ^ ds.length) b]
    omega

theorem valB_replicate_zero (b z : Nat) (ds : List Nat) :
    valB b (List.replicate z 0 ++ ds) = valB b ds := by
  induction z with
  | zero => simp
  | succ z ih => rw [List.replicate_succ, List.cons_append, valB_cons, ih]; simp

/-- `digitsBE` writes `n` in front of `acc`. -/
theorem valB_digitsBE (b : Nat) (hb : 2 ≤ b) (fuel n : Nat) (acc : List Nat) (hf : n ≤ fuel) :
    valB b (digitsBE b fuel n acc) = n * b ^ acc.length + valB b acc := by
  induction fuel generalizing n acc with
  | zero =>
    have : n = 0 := by omega
    subst this; simp [digitsBE]
  | succ f ih =>
    unfold digitsBE
    split
    · rename_i h0; subst h0; simp
    · rename_i h0
      have hdiv : n / b ≤ f := by
        have : n / b < n := Nat.div_lt_self (by omega) (by omega)
        omega
      rw [ih (n / b) (n % b :: acc) hdiv, valB_cons, List.length_cons, Nat.pow_succ]
      have e : n = b * (n / b) + n % b := (Nat.div_add_mod n b).symm
      have : n * b ^ acc.length = (n / b) * (b ^ acc.length * b) + n % b * b ^ acc.length := by
        conv => lhs; rw [e]
        rw [Nat.add_mul, Nat.mul_comm b (n / b), Nat.mul_assoc, Nat.mul_comm b (b ^ acc.length)]
      omega

theorem digitsBE_lt (b : Nat) (hb : 0 < b) (fuel n : Nat) (acc : List Nat) (h : ∀ d ∈ acc, d < b) :
    ∀ d ∈ digitsBE b fuel n acc, d < b := by
  induction fuel generalizing n acc with
  | zero => simpa [digitsBE] using h
  | succ f ih =>
    unfold digitsBE
    split
    · exact h
    · apply ih
      intro d hd
      rcases List.mem_cons.1 hd with rfl | hd
      · exact Nat.mod_lt _ hb
      · exact h d hd

/-- no leading zero digit -/
def Canon (ds : List Nat) : Prop := ds.head? ≠ some 0

theorem digitsBE_canon (b : Nat) (hb : 2 ≤ b) (fuel n : Nat) (acc : List Nat) (hn : 0 < n)
    (hf : n ≤ fuel) : Canon (digitsBE b fuel n acc) := by
  induction fuel generalizing n acc with
  | zero => omega
  | succ f ih =>
    unfold digitsBE
    rw [if_neg (by omega)]
    by_cases h0 : n / b = 0
    · rw [h0]
      have : digitsBE b f 0 (n % b :: acc) = n % b :: acc := by
        cases f <;> simp [digitsBE]
      rw [this]
      have hlt : n < b := by
        rcases Nat.div_eq_zero_iff.1 h0 with h | h
        · omega
        · exact h
      simp only [Canon, List.head?_cons, ne_eq, Option.some.injEq]
      rw [Nat.mod_eq_of_lt hlt]; omega
    · have : n / b < n := Nat.div_lt_self (by omega) (by omega)
      exact ih (n / b) _ (Nat.pos_of_ne_zero h0) (by omega)

theorem natBytes_nil_or_canon (b : Nat) (hb : 2 ≤ b) (n : Nat) : Canon (digitsBE b n n []) := by
  by_cases h : n = 0
  · subst h; simp [digitsBE, Canon]
  · exact digitsBE_canon b hb n n [] (by omega) (Nat.le_refl _)

/-- value of little-endian digits -/
def valLE (b : Nat) : List Nat → Nat
  | [] => 0
  | d :: rs => d + b * valLE b rs

theorem valLE_pos (b : Nat) (hb : 2 ≤ b) : ∀ (rs : List Nat), rs ≠ [] → rs.getLast? ≠ some 0 →
    0 < valLE b rs
  | [], h, _ => absurd rfl h
  | [d], _, h => by
    simp only [List.getLast?_singleton, ne_eq, Option.some.injEq] at h
    simp only [valLE]; omega
  | d :: e :: rs, _, h => by
    rw [List.getLast?_cons_cons] at h
    have := valLE_pos b hb (e :: rs) (by simp) h
    simp only [valLE] at this ⊢
    have : 0 < b * (e + b * valLE b rs) := Nat.mul_pos (by omega) this
    omega

theorem digitsBE_valLE (b : Nat) (hb : 2 ≤ b) : ∀ (rs : List Nat) (fuel : Nat) (acc : List Nat),
    (∀ d ∈ rs, d < b) → rs.getLast? ≠ some 0 → valLE b rs ≤ fuel →
    digitsBE b fuel (valLE b rs) acc = rs.reverse ++ acc
  | [], fuel, acc, _, _, _ => by cases fuel <;> simp [valLE, digitsBE]
  | d :: rs, fuel, acc, hlt, hc, hf => by
    have hd : d < b := hlt d List.mem_cons_self
    have hpos : 0 < valLE b (d :: rs) := valLE_pos b hb (d :: rs) (by simp) hc
    simp only [valLE] at hpos hf ⊢
    cases fuel with
    | zero => omega
    | succ f =>
      unfold digitsBE
      rw [if_neg (by omega)]
      have h1 : (d + b * valLE b rs) / b = valLE b rs := by
        rw [Nat.add_mul_div_left _ _ (by omega), Nat.div_eq_of_lt hd, Nat.zero_add]
      have h2 : (d + b * valLE b rs) % b = d := by
        rw [Nat.add_mul_mod_self_left, Nat.mod_eq_of_lt hd]
      rw [h1, h2]
      have hc' : rs.getLast? ≠ some 0 := by
        cases rs with
        | nil => simp
        | cons e rs => rwa [List.getLast?_cons_cons] at hc
      have hf' : valLE b rs ≤ f := by
        rcases Nat.eq_zero_or_pos (valLE b rs) with h0 | h0
        · omega
        · have : 2 * valLE b rs ≤ b * valLE b rs := Nat.mul_le_mul_right _ hb
          omega
      rw [digitsBE_valLE b hb rs f (d :: acc) (fun x hx => hlt x (List.mem_cons_of_mem _ hx)) hc' hf']
      simp

theorem valLE_append (b : Nat) (rs : List Nat) (d : Nat) :
    valLE b (rs ++ [d]) = valLE b rs + d * b ^ rs.length := by
  induction rs with
  | nil => simp [valLE]
  | cons e rs ih =>
    simp only [List.cons_append, valLE, ih, List.length_cons, Nat.pow_succ, Nat.mul_add]
    rw [Nat.mul_comm (b ^ rs.length) b, ← Nat.mul_assoc d, Nat.mul_comm d b, Nat.mul_assoc b d]
    omega

theorem valB_eq_valLE (b : Nat) (ds : List Nat) : valB b ds = valLE b ds.reverse := by
  induction ds with
  | nil => rfl
  | cons d ds ih =>
    rw [List.reverse_cons, valLE_append, valB_cons, ih, List.length_reverse]
    omega

/-- The digits of the value of canonical digits are those digits. -/
theorem digitsBE_valB (b : Nat) (hb : 2 ≤ b) (ds : List Nat) (fuel : Nat) (acc : List Nat)
    (hlt : ∀ d ∈ ds, d < b) (hc : Canon ds) (hf : valB b ds ≤ fuel) :
    digitsBE b fuel (valB b ds) acc = ds ++ acc := by
  rw [valB_eq_valLE] at hf ⊢
  rw [digitsBE_valLE b hb ds.reverse fuel acc (fun d hd => hlt d (List.mem_reverse.1 hd))
    (by rw [List.getLast?_reverse]; exact hc) hf, List.reverse_reverse]

/-! ## `base58::encode` and `base58::decode` are inverse to each other -/

theorem leadingZeros_spec (l : List Nat) :
    l = List.replicate (leadingZeros l) 0 ++ l.drop (leadingZeros l) ∧
      Canon (l.drop (leadingZeros l)) := by
  fun_induction leadingZeros l with
  | case1 bs ih =>
    refine ⟨?_, ?_⟩
    · rw [List.replicate_succ, List.cons_append, List.drop_succ_cons, ← ih.1]
    · rw [List.drop_succ_cons]; exact ih.2
  | case2 l hne =>
    refine ⟨by simp, ?_⟩
    simp only [List.drop_zero, Canon]
    intro h
    cases l with
    | nil => simp at h
    | cons x xs =>
      simp only [List.head?_cons, Option.some.injEq] at h
      subst h
      exact hne xs rfl

theorem leadingZeros_canon (ds : List Nat) (hc : Canon ds) : leadingZeros ds = 0 := by
  cases ds with
  | nil => rfl
  | cons d ds =>
    simp only [Canon, List.head?_cons, ne_eq, Option.some.injEq] at hc
    cases d with
    | zero => exact absurd rfl hc
    | succ d => rfl

theorem leadingZeros_replicate_append (z : Nat) (ds : List Nat) (hc : Canon ds) :
    leadingZeros (List.replicate z 0 ++ ds) = z := by
  induction z with
  | zero => simpa using leadingZeros_canon ds hc
  | succ z ih => rw [List.replicate_succ, List.cons_append, leadingZeros, ih]

/-- `base58::decode ∘ base58::encode = id` -/
theorem base58Decode_encode (data : List Nat) (hd : AllBytes data) :
    base58Decode (base58Encode data) = some data := by
  obtain ⟨hsplit, hcanon⟩ := leadingZeros_spec data
  unfold base58Encode base58Decode
  simp only []
  rw [b58Digits_eq]
  generalize hn : Btc.Merkle.ofBeBytes data = n
  generalize hz : leadingZeros data = z at hsplit hcanon
  have hdigs : ∀ d ∈ List.replicate z 0 ++ digitsBE 58 n n [], d < 58 := by
    intro d hd
    rcases List.mem_append.1 hd with hd | hd
    · rw [List.mem_replicate] at hd; omega
    · exact digitsBE_lt 58 (by decide) n n [] (by simp) d hd
  rw [mapOpt_map base58Digit _ _ (fun d hd => base58Digit_alphabet d (hdigs d hd))]
  simp only []
  rw [leadingZeros_replicate_append z _ (natBytes_nil_or_canon 58 (by decide) n), b58Val_eq,
    valB_replicate_zero, valB_digitsBE 58 (by decide) n n [] (Nat.le_refl _)]
  simp only [List.length_nil, Nat.pow_zero, Nat.mul_one, valB_nil, Nat.add_zero]
  have hval : valB 256 (data.drop z) = n := by
    rw [← hn, ofBeBytes_eq]
    conv => rhs; rw [hsplit]
    rw [valB_replicate_zero]
  have := digitsBE_valB 256 (by decide) (data.drop z) n []
    (fun d hd' => hd d (List.mem_of_mem_drop hd')) hcanon (by omega)
  rw [hval, List.append_nil] at this
  rw [natBytes, this, ← hsplit]

/-- `base58::encode ∘ base58::decode = id`: a string has at most one reading, and the bytes are
    bytes. -/
theorem base58Encode_decode (s bytes : List Nat) (h : base58Decode s = some bytes) :
    base58Encode bytes = s ∧ AllBytes bytes := by
  unfold base58Decode at h
  split at h
  · simp at h
  rename_i ds hmap
  simp only [Option.some.injEq] at h
  obtain ⟨hlt, hs⟩ := mapOpt_some base58Digit (fun d => b58Alphabet.getD d 0) id (· < 58)
    (fun c d hcd => base58Digit_some hcd) s ds hmap
  simp only [List.map_id] at hs
  obtain ⟨hsplit, hcanon⟩ := leadingZeros_spec ds
  generalize hz : leadingZeros ds = z at h hsplit hcanon
  generalize hm : b58Val ds = m at h
  have hnb : Canon (natBytes m) := natBytes_nil_or_canon 256 (by decide) m
  have hval : valB 256 (natBytes m) = m := by
    rw [natBytes, valB_digitsBE 256 (by decide) m m [] (Nat.le_refl _)]
    simp [valB_nil]
  have hall : AllBytes bytes := by
    rw [← h]
    intro d hd
    rcases List.mem_append.1 hd with hd | hd
    · rw [List.mem_replicate] at hd; omega
    · exact digitsBE_lt 256 (by decide) m m [] (by simp) d hd
  refine ⟨?_, hall⟩
  unfold base58Encode
  simp only []
  rw [b58Digits_eq, ← h, leadingZeros_replicate_append z _ hnb, ofBeBytes_eq, valB_replicate_zero,
    hval]
  have hv58 : valB 58 (ds.drop z) = m := by
    rw [← hm, b58Val_eq]
    conv => rhs; rw [hsplit]
    rw [valB_replicate_zero]
  have := digitsBE_valB 58 (by decide) (ds.drop z) m []
    (fun d hd' => hlt d (List.mem_of_mem_drop hd')) hcanon (by omega)
  rw [hv58, List.append_nil] at this
  rw [this, ← hsplit, hs]

/-! ## SHA-256 output -/

theorem wordBytes_lt (x : UInt32) : ∀ b ∈ wordBytes x, b < 256 := by
  intro b hb
  simp only [wordBytes, List.mem_cons, List.not_mem_nil, or_false] at hb
  have hx := x.toNat_lt
  rcases hb with rfl | rfl | rfl | rfl
  · rw [UInt32.toNat_shiftRight, Nat.shiftRight_eq_div_pow]
    have : (24 : UInt32).toNat % 32 = 24 := by decide
    rw [this]; omega
  · rw [UInt32.toNat_and]; exact Nat.lt_succ_of_le Nat.and_le_right
  · rw [UInt32.toNat_and]; exact Nat.lt_succ_of_le Nat.and_le_right
  · rw [UInt32.toNat_and]; exact Nat.lt_succ_of_le Nat.and_le_right

theorem sha_bytes_spec (s : Sha) : s.bytes.length = 32 ∧ AllBytes s.bytes := by
  refine ⟨by simp [Sha.bytes, wordBytes], ?_⟩
  intro b hb
  simp only [Sha.bytes, List.mem_append] at hb
  rcases hb with ((((((hb | hb) | hb) | hb) | hb) | hb) | hb) | hb <;> exact wordBytes_lt _ b hb

theorem sha256d_spec (msg : List Nat) : (sha256d msg).length = 32 ∧ AllBytes (sha256d msg) := by
  unfold sha256d sha256
  exact sha_bytes_spec _

end Btc.AddrParse
