import BtcModel.Spec.Reach
import BtcModel.Lemmas.AList

/-!
  `NextBlockHeaders` (`unstable_blocks/next_block_headers.rs`): the two maps stay in agreement
  (`Spec.NextOk`) under `insert` (of a header that is not stored yet), `remove` and
  `remove_until_height`; `get_max_height` is the maximum stored height.
-/
namespace Btc.Lemmas.NextHeaders
open Btc Btc.Spec

/-! ### Association lists -/

theorem find?_filter_key {κ ν : Type} [BEq κ] [LawfulBEq κ] (q : κ → Bool) (m : List (κ × ν))
    (k : κ) : AList.find? (m.filter (fun p => q p.1)) k = if q k then AList.find? m k else none := by
  induction m with
  | nil => simp
  | cons p ps ih =>
    obtain ⟨k', v⟩ := p
    simp only [List.filter_cons]
    by_cases hk : (k' == k) = true
    · have : k' = k := eq_of_beq hk
      subst this
      by_cases hq : q k' = true
      · simp [hq, AList.find?_cons]
      · simp only [hq, Bool.false_eq_true, if_false] at ih ⊢
        exact ih
    · by_cases hq : q k' = true
      · simp [hq, AList.find?_cons, hk, ih]
      · simp [hq, AList.find?_cons, hk, ih]

theorem keys_filter_nodup {κ ν : Type} (q : κ × ν → Bool) (m : List (κ × ν))
    (h : (m.map (·.1)).Nodup) : ((m.filter q).map (·.1)).Nodup :=
  ((List.filter_sublist (l := m) (p := q)).map _).nodup h

theorem filter_ne_nil_of_nodup (vec : List Nat) (hash : Nat) (hnd : vec.Nodup) (hm : hash ∈ vec)
    (hl : vec.length ≠ 1) : vec.filter (fun x => x != hash) ≠ [] := by
  intro he
  rw [List.filter_eq_nil_iff] at he
  have hall : ∀ a ∈ vec, a = hash := by
    intro a ha
    have := he a ha
    simpa using this
  match vec, hnd, hm, hl, hall with
  | [], _, hm, _, _ => simp at hm
  | [a], _, _, hl, _ => simp at hl
  | a :: b :: rest, hnd, _, _, hall =>
    have h1 := hall a (by simp)
    have h2 := hall b (by simp)
    simp only [List.nodup_cons, List.mem_cons, not_or] at hnd
    exact hnd.1.1 (h1.trans h2.symm)

/-! ### Lookups after each operation -/

theorem getHeight_eq (n : NextBlockHeaders) (x : Nat) :
    n.getHeight x = (AList.find? n.byHash x).map (·.1) := rfl

theorem getHeader_eq_none_iff (n : NextBlockHeaders) (x : Nat) :
    n.getHeader x = none ↔ n.getHeight x = none := by
  unfold NextBlockHeaders.getHeader NextBlockHeaders.getHeight
  cases AList.find? n.byHash x <;> simp

theorem getHeader_isSome_iff (n : NextBlockHeaders) (x : Nat) :
    (n.getHeader x).isSome = true ↔ ∃ ht, n.getHeight x = some ht := by
  unfold NextBlockHeaders.getHeader NextBlockHeaders.getHeight
  cases AList.find? n.byHash x <;> simp

theorem nextOk_empty : NextOk {} := by
  refine ⟨by simp, by simp, ?_, ?_, ?_, ?_⟩
  · intro h ht; simp [NextBlockHeaders.getHeight]
  · intro ht v h; simp at h
  · intro ht v h; simp at h
  · intro h x hx; simp at hx

/-- `insert` -/
theorem find?_byHash_insert (n : NextBlockHeaders) (h : NextHeader) (height x : Nat) :
    AList.find? (n.insert h height).byHash x =
      if h.hash == x then some (height, h) else AList.find? n.byHash x := by
  simp only [NextBlockHeaders.insert, AList.find?_insert]

theorem getHeight_insert (n : NextBlockHeaders) (h : NextHeader) (height x : Nat) :
    (n.insert h height).getHeight x = if h.hash == x then some height else n.getHeight x := by
  rw [getHeight_eq, find?_byHash_insert]
  split <;> rfl

theorem insert_ok (n : NextBlockHeaders) (h : NextHeader) (height : Nat) (hok : NextOk n)
    (hnew : AList.find? n.byHash h.hash = none) : NextOk (n.insert h height) := by
  -- the vector stored under `height`
  let vec := (AList.find? n.byHeight height).getD []
  let vec' := if vec.contains h.hash then vec else vec ++ [h.hash]
  have hbh : ∀ ht, AList.find? (n.insert h height).byHeight ht =
      if height == ht then some vec' else AList.find? n.byHeight ht := by
    intro ht
    simp only [NextBlockHeaders.insert, AList.find?_insert]
    rfl
  have hmem' : ∀ x, x ∈ vec' ↔ x ∈ vec ∨ x = h.hash := by
    intro x
    show x ∈ (if vec.contains h.hash then vec else vec ++ [h.hash]) ↔ _
    split
    · rename_i hc
      have := List.contains_iff_mem.mp hc
      constructor
      · exact Or.inl
      · rintro (h1 | rfl)
        · exact h1
        · exact this
    · simp
  have hvec : ∀ x, x ∈ vec → AList.find? n.byHeight height = some vec := by
    intro x hx
    show AList.find? n.byHeight height = some ((AList.find? n.byHeight height).getD [])
    cases hf : AList.find? n.byHeight height with
    | none =>
      have : vec = [] := by show (AList.find? n.byHeight height).getD [] = []; rw [hf]; rfl
      rw [this] at hx; cases hx
    | some v => rfl
  have hnone : n.getHeight h.hash = none := by rw [getHeight_eq, hnew]; rfl
  have hvecNodup : vec.Nodup := by
    show ((AList.find? n.byHeight height).getD []).Nodup
    cases hf : AList.find? n.byHeight height with
    | none => simp
    | some v => exact hok.vecNodup height v hf
  refine ⟨?_, ?_, ?_, ?_, ?_, ?_⟩
  · exact AList.nodup_keys_insert _ _ _ hok.byHashNodup
  · exact AList.nodup_keys_insert _ _ _ hok.byHeightNodup
  · intro x ht
    rw [getHeight_insert, hbh]
    by_cases hx : h.hash = x
    · subst hx
      simp only [beq_self_eq_true, if_true, Option.some.injEq]
      constructor
      · rintro rfl
        exact ⟨vec', by simp, (hmem' _).mpr (Or.inr rfl)⟩
      · rintro ⟨v, hv, hxv⟩
        by_cases hh : height = ht
        · exact hh
        · have : (height == ht) = false := by simp [hh]
          rw [this] at hv
          simp only [Bool.false_eq_true, if_false] at hv
          have := (hok.agree h.hash ht).mpr ⟨v, hv, hxv⟩
          rw [hnone] at this; cases this
    · have hx' : (h.hash == x) = false := by simp [hx]
      simp only [hx', Bool.false_eq_true, if_false]
      rw [hok.agree x ht]
      by_cases hh : height = ht
      · subst hh
        simp only [beq_self_eq_true, if_true, Option.some.injEq]
        constructor
        · rintro ⟨v, hv, hxv⟩
          refine ⟨vec', rfl, (hmem' x).mpr (Or.inl ?_)⟩
          show x ∈ (AList.find? n.byHeight height).getD []
          rw [hv]; exact hxv
        · rintro ⟨v, rfl, hxv⟩
          rcases (hmem' x).mp hxv with h1 | h1
          · exact ⟨vec, hvec x h1, h1⟩
          · exact absurd h1.symm hx
      · have : (height == ht) = false := by simp [hh]
        simp only [this, Bool.false_eq_true, if_false]
  · intro ht v hv
    rw [hbh] at hv
    split at hv
    · simp only [Option.some.injEq] at hv
      subst hv
      show (if vec.contains h.hash then vec else vec ++ [h.hash]).Nodup
      split
      · exact hvecNodup
      · rename_i hc
        rw [List.nodup_append]
        refine ⟨hvecNodup, by simp, ?_⟩
        intro a ha b hb e
        simp only [List.mem_singleton] at hb
        subst hb; subst e
        exact hc (List.contains_iff_mem.mpr ha)
    · exact hok.vecNodup ht v hv
  · intro ht v hv
    rw [hbh] at hv
    split at hv
    · simp only [Option.some.injEq] at hv
      subst hv
      intro he
      have := (hmem' h.hash).mpr (Or.inr rfl)
      rw [he] at this; cases this
    · exact hok.vecNonempty ht v hv
  · intro x y hy
    rw [find?_byHash_insert] at hy
    split at hy
    · rename_i hx
      simp only [Option.some.injEq] at hy
      subst hy
      exact eq_of_beq hx
    · exact hok.keyIsHash x y hy

/-- `remove` -/
theorem find?_byHash_remove (n : NextBlockHeaders) (hash x : Nat) :
    AList.find? (n.remove hash).byHash x = if hash == x then none else AList.find? n.byHash x := by
  unfold NextBlockHeaders.remove
  cases hf : AList.find? n.byHash hash with
  | none =>
    simp only
    split
    · rename_i hx
      have := eq_of_beq hx
      subst this
      exact hf
    · rfl
  | some p =>
    obtain ⟨height, hd⟩ := p
    simp only [AList.find?_erase]

theorem getHeight_remove (n : NextBlockHeaders) (hash x : Nat) :
    (n.remove hash).getHeight x = if hash == x then none else n.getHeight x := by
  rw [getHeight_eq, find?_byHash_remove]
  split <;> rfl

theorem getHeader_remove (n : NextBlockHeaders) (hash x : Nat) :
    (n.remove hash).getHeader x = if hash == x then none else n.getHeader x := by
  unfold NextBlockHeaders.getHeader
  rw [find?_byHash_remove]
  split <;> rfl

theorem remove_ok (n : NextBlockHeaders) (hash : Nat) (hok : NextOk n) : NextOk (n.remove hash) := by
  cases hf : AList.find? n.byHash hash with
  | none =>
    have : n.remove hash = n := by simp [NextBlockHeaders.remove, hf]
    rw [this]; exact hok
  | some p =>
    obtain ⟨height, hd⟩ := p
    have hgh : n.getHeight hash = some height := by rw [getHeight_eq, hf]; rfl
    obtain ⟨vec, hv, hmem⟩ := (hok.agree hash height).mp hgh
    have hnd := hok.vecNodup height vec hv
    have hbh : ∀ ht, AList.find? (n.remove hash).byHeight ht =
        if height == ht then (if vec.length = 1 then none else some (vec.filter (fun x => x != hash)))
        else AList.find? n.byHeight ht := by
      intro ht
      unfold NextBlockHeaders.remove
      simp only [hf, hv, Option.getD_some]
      by_cases hl : vec.length = 1
      · simp only [hl, if_true, AList.find?_erase]
      · simp only [hl, if_false, AList.find?_insert]
    have hone : vec.length = 1 → vec = [hash] := by
      intro hl
      obtain ⟨a, ha⟩ := List.length_eq_one_iff.mp hl
      rw [ha] at hmem ⊢
      simp only [List.mem_singleton] at hmem
      rw [hmem]
    refine ⟨?_, ?_, ?_, ?_, ?_, ?_⟩
    · have : (n.remove hash).byHash = AList.erase n.byHash hash := by
        simp [NextBlockHeaders.remove, hf]
      rw [this]
      exact AList.nodup_keys_erase _ _ hok.byHashNodup
    · have : (n.remove hash).byHeight = if vec.length = 1 then AList.erase n.byHeight height
          else AList.insert n.byHeight height (vec.filter (fun x => x != hash)) := by
        simp [NextBlockHeaders.remove, hf, hv]
      rw [this]
      split
      · exact AList.nodup_keys_erase _ _ hok.byHeightNodup
      · exact AList.nodup_keys_insert _ _ _ hok.byHeightNodup
    · intro x ht
      rw [getHeight_remove, hbh]
      by_cases hx : hash = x
      · subst hx
        simp only [beq_self_eq_true, if_true, reduceCtorEq, false_iff, not_exists, not_and]
        intro v hv' hxv
        by_cases hh : height = ht
        · subst hh
          simp only [beq_self_eq_true, if_true] at hv'
          split at hv'
          · cases hv'
          · simp only [Option.some.injEq] at hv'
            subst hv'
            simp at hxv
        · have : (height == ht) = false := by simp [hh]
          simp only [this, Bool.false_eq_true, if_false] at hv'
          have := (hok.agree hash ht).mpr ⟨v, hv', hxv⟩
          rw [hgh] at this
          exact hh (Option.some.inj this)
      · have hx' : (hash == x) = false := by simp [hx]
        simp only [hx', Bool.false_eq_true, if_false]
        rw [hok.agree x ht]
        by_cases hh : height = ht
        · subst hh
          simp only [beq_self_eq_true, if_true, hv, Option.some.injEq]
          constructor
          · rintro ⟨v, rfl, hxv⟩
            by_cases hl : vec.length = 1
            · rw [hone hl] at hxv
              simp only [List.mem_singleton] at hxv
              exact absurd hxv.symm hx
            · refine ⟨vec.filter (fun x => x != hash), by simp [hl], ?_⟩
              rw [List.mem_filter]
              exact ⟨hxv, by simpa using fun e => hx e.symm⟩
          · rintro ⟨v, hv', hxv⟩
            split at hv'
            · cases hv'
            · simp only [Option.some.injEq] at hv'
              subst hv'
              exact ⟨vec, rfl, (List.mem_filter.mp hxv).1⟩
        · have : (height == ht) = false := by simp [hh]
          simp only [this, Bool.false_eq_true, if_false]
    · intro ht v hv'
      rw [hbh] at hv'
      split at hv'
      · split at hv'
        · cases hv'
        · simp only [Option.some.injEq] at hv'
          subst hv'
          exact hnd.filter _
      · exact hok.vecNodup ht v hv'
    · intro ht v hv'
      rw [hbh] at hv'
      split at hv'
      · split at hv'
        · cases hv'
        · rename_i hl
          simp only [Option.some.injEq] at hv'
          subst hv'
          exact filter_ne_nil_of_nodup vec hash hnd hmem hl
      · exact hok.vecNonempty ht v hv'
    · intro x y hy
      rw [find?_byHash_remove] at hy
      split at hy
      · cases hy
      · exact hok.keyIsHash x y hy

/-- `remove_until_height` -/
theorem find?_byHeight_removeUntil (n : NextBlockHeaders) (sh ht : Nat) :
    AList.find? (n.removeUntil sh).byHeight ht =
      if ht ≤ sh then none else AList.find? n.byHeight ht := by
  have := find?_filter_key (fun k => !(decide (k ≤ sh))) n.byHeight ht
  simp only [NextBlockHeaders.removeUntil]
  rw [this]
  by_cases h : ht ≤ sh <;> simp [h]

/-- the hashes dropped by `remove_until_height` -/
def dropped (n : NextBlockHeaders) (sh : Nat) : List Nat :=
  (n.byHeight.filter (fun p => p.1 ≤ sh)).flatMap (·.2)

theorem mem_dropped (n : NextBlockHeaders) (hok : NextOk n) (sh x : Nat) :
    x ∈ dropped n sh ↔ ∃ ht, n.getHeight x = some ht ∧ ht ≤ sh := by
  unfold dropped
  rw [List.mem_flatMap]
  constructor
  · rintro ⟨⟨ht, v⟩, hp, hxv⟩
    rw [List.mem_filter] at hp
    have hle : ht ≤ sh := by simpa using hp.2
    have hfind := AList.find?_of_mem n.byHeight hok.byHeightNodup ht v hp.1
    exact ⟨ht, (hok.agree x ht).mpr ⟨v, hfind, hxv⟩, hle⟩
  · rintro ⟨ht, hg, hle⟩
    obtain ⟨v, hv, hxv⟩ := (hok.agree x ht).mp hg
    refine ⟨(ht, v), ?_, hxv⟩
    rw [List.mem_filter]
    exact ⟨AList.mem_of_find? _ _ _ hv, by simpa using hle⟩

theorem find?_byHash_removeUntil (n : NextBlockHeaders) (sh x : Nat) :
    AList.find? (n.removeUntil sh).byHash x =
      if (dropped n sh).contains x then none else AList.find? n.byHash x := by
  have := find?_filter_key (fun k => !((dropped n sh).contains k)) n.byHash x
  simp only [NextBlockHeaders.removeUntil]
  unfold dropped at this ⊢
  rw [this]
  cases ((n.byHeight.filter (fun p => decide (p.1 ≤ sh))).flatMap (·.2)).contains x <;> simp

theorem getHeight_removeUntil (n : NextBlockHeaders) (hok : NextOk n) (sh x ht : Nat) :
    (n.removeUntil sh).getHeight x = some ht ↔ n.getHeight x = some ht ∧ sh < ht := by
  rw [getHeight_eq, find?_byHash_removeUntil]
  constructor
  · intro h
    split at h
    · cases h
    · rename_i hc
      have hg : n.getHeight x = some ht := h
      refine ⟨hg, ?_⟩
      apply Nat.lt_of_not_le
      intro hle
      exact hc (List.contains_iff_mem.mpr ((mem_dropped n hok sh x).mpr ⟨ht, hg, hle⟩))
  · rintro ⟨hg, hlt⟩
    have hc : (dropped n sh).contains x = false := by
      cases hcc : (dropped n sh).contains x with
      | false => rfl
      | true =>
        obtain ⟨ht2, hg2, hle⟩ := (mem_dropped n hok sh x).mp (List.contains_iff_mem.mp hcc)
        rw [hg] at hg2
        have := Option.some.inj hg2
        omega
    rw [hc]
    exact hg

theorem getHeader_removeUntil_none (n : NextBlockHeaders) (sh x : Nat)
    (h : n.getHeader x = none) : (n.removeUntil sh).getHeader x = none := by
  unfold NextBlockHeaders.getHeader at h ⊢
  rw [find?_byHash_removeUntil]
  split
  · rfl
  · exact h

theorem removeUntil_ok (n : NextBlockHeaders) (sh : Nat) (hok : NextOk n) :
    NextOk (n.removeUntil sh) := by
  refine ⟨?_, ?_, ?_, ?_, ?_, ?_⟩
  · exact keys_filter_nodup _ _ hok.byHashNodup
  · exact keys_filter_nodup _ _ hok.byHeightNodup
  · intro x ht
    rw [getHeight_removeUntil n hok, find?_byHeight_removeUntil, hok.agree x ht]
    by_cases h : ht ≤ sh
    · simp only [h, if_true, reduceCtorEq, false_and, exists_false, iff_false, not_and]
      intro _; omega
    · simp only [h, if_false]
      constructor
      · exact fun hh => hh.1
      · exact fun hh => ⟨hh, by omega⟩
  · intro ht v hv
    rw [find?_byHeight_removeUntil] at hv
    split at hv
    · cases hv
    · exact hok.vecNodup ht v hv
  · intro ht v hv
    rw [find?_byHeight_removeUntil] at hv
    split at hv
    · cases hv
    · exact hok.vecNonempty ht v hv
  · intro x y hy
    rw [find?_byHash_removeUntil] at hy
    split at hy
    · cases hy
    · exact hok.keyIsHash x y hy

/-! ### `get_max_height` -/

theorem foldl_max_spec {β : Type} : ∀ (ps : List (Nat × β)) (a : Nat),
    (ps.foldl (fun m q => max m q.1) a = a ∨ ps.foldl (fun m q => max m q.1) a ∈ ps.map (·.1)) ∧
    a ≤ ps.foldl (fun m q => max m q.1) a ∧
    ∀ k ∈ ps.map (·.1), k ≤ ps.foldl (fun m q => max m q.1) a
  | [], a => by simp
  | p :: ps, a => by
    obtain ⟨h1, h2, h3⟩ := foldl_max_spec ps (max a p.1)
    simp only [List.foldl_cons, List.map_cons, List.mem_cons]
    refine ⟨?_, by omega, ?_⟩
    · rcases h1 with h1 | h1
      · rw [h1]
        by_cases hle : p.1 ≤ a
        · left; omega
        · right; left; omega
      · right; right; exact h1
    · intro k hk
      rcases hk with rfl | hk
      · omega
      · exact h3 k hk

/-- `get_max_height` is `None` on the empty store and otherwise a stored height that bounds every
    stored height. -/
theorem maxHeight_spec (n : NextBlockHeaders) :
    (n.maxHeight = none ↔ n.byHeight = []) ∧
    ∀ m, n.maxHeight = some m → m ∈ n.byHeight.map (·.1) ∧ ∀ k ∈ n.byHeight.map (·.1), k ≤ m := by
  unfold NextBlockHeaders.maxHeight
  cases hb : n.byHeight with
  | nil => simp
  | cons p ps =>
    simp only [reduceCtorEq, Option.some.injEq, List.map_cons, List.mem_cons, false_iff,
      not_false_eq_true, true_and]
    intro m hm
    subst hm
    obtain ⟨h1, h2, h3⟩ := foldl_max_spec ps p.1
    refine ⟨?_, ?_⟩
    · rcases h1 with h1 | h1
      · exact Or.inl h1
      · exact Or.inr h1
    · intro k hk
      rcases hk with rfl | hk
      · exact h2
      · exact h3 k hk

theorem mem_keys_iff (n : NextBlockHeaders) (hok : NextOk n) (k : Nat) :
    k ∈ n.byHeight.map (·.1) ↔ ∃ h, n.getHeight h = some k := by
  rw [← AList.find?_isSome_iff_mem_keys]
  constructor
  · intro hs
    cases hf : AList.find? n.byHeight k with
    | none => rw [hf] at hs; cases hs
    | some v =>
      have hne := hok.vecNonempty k v hf
      cases v with
      | nil => exact absurd rfl hne
      | cons x xs => exact ⟨x, (hok.agree x k).mpr ⟨_, hf, by simp⟩⟩
  · rintro ⟨h, hg⟩
    obtain ⟨v, hv, _⟩ := (hok.agree h k).mp hg
    rw [hv]; rfl

/-- **`get_max_height` = the maximum height of a stored header** (under `NextOk`). -/
theorem maxHeight_eq_some_iff (n : NextBlockHeaders) (hok : NextOk n) (m : Nat) :
    n.maxHeight = some m ↔
      (∃ h, n.getHeight h = some m) ∧ ∀ h ht, n.getHeight h = some ht → ht ≤ m := by
  obtain ⟨h0, h1⟩ := maxHeight_spec n
  constructor
  · intro hm
    obtain ⟨hin, hle⟩ := h1 m hm
    refine ⟨(mem_keys_iff n hok m).mp hin, ?_⟩
    intro h ht hg
    exact hle ht ((mem_keys_iff n hok ht).mpr ⟨h, hg⟩)
  · rintro ⟨⟨h, hg⟩, hle⟩
    have hin := (mem_keys_iff n hok m).mpr ⟨h, hg⟩
    cases hmx : n.maxHeight with
    | none =>
      rw [h0.mp hmx] at hin
      cases hin
    | some m' =>
      obtain ⟨hin', hle'⟩ := h1 m' hmx
      obtain ⟨h', hg'⟩ := (mem_keys_iff n hok m').mp hin'
      have a := hle h' m' hg'
      have b := hle' m hin
      congr 1
      omega

theorem maxHeight_eq_none_iff (n : NextBlockHeaders) (hok : NextOk n) :
    n.maxHeight = none ↔ ∀ h, n.getHeight h = none := by
  obtain ⟨h0, _⟩ := maxHeight_spec n
  rw [h0]
  constructor
  · intro he h
    rw [getHeight_eq]
    cases hf : AList.find? n.byHash h with
    | none => rfl
    | some p =>
      have hg : n.getHeight h = some p.1 := by rw [getHeight_eq, hf]; rfl
      obtain ⟨v, hv, _⟩ := (hok.agree h p.1).mp hg
      rw [he] at hv
      cases hv
  · intro hall
    cases hb : n.byHeight with
    | nil => rfl
    | cons p ps =>
      have : p.1 ∈ n.byHeight.map (·.1) := by rw [hb]; simp
      obtain ⟨h, hg⟩ := (mem_keys_iff n hok p.1).mp this
      rw [hall h] at hg
      cases hg

end Btc.Lemmas.NextHeaders
