import BtcModel.Lemmas.Reach2

/-!
  The operations of the extended transition system (`Spec/Reach2.lean`) from a *paused* state
  (`PausedAt' s0 s G A B`): continuing the ingestion (`resume_cases`, `paused_ingest`),
  `set_config`, upgrade, announced headers, queries.  Then: every step of `Spec.step2` preserves
  `Inv2`, and `Inv2` holds in every `Reachable2` state (`reachable2_inv`).
-/
namespace Btc.Lemmas.Reach2
open Btc Btc.Spec Btc.Tree Btc.Lemmas.Reach Btc.Lemmas.ReachNext Btc.Props.InvIngest

variable {s0 s : State} {G : List Block} {A : CBlock} {B : Nat}

/-! ### The shape of a paused state -/

theorem PausedAt'.state_eq (h : PausedAt' s0 s G A B) :
    s = { s0 with headers := s0.headers.insert A.blk s0.utxos.nextHeight, utxos := s.utxos } := by
  rw [h.base.inv.heightEq]
  exact h.base.eq

theorem PausedAt'.unstable (h : PausedAt' s0 s G A B) : s.unstable = s0.unstable := h.base.unstable

theorem PausedAt'.nextHeight (h : PausedAt' s0 s G A B) :
    s.utxos.nextHeight = s0.utxos.nextHeight := h.base.nextHeight

theorem PausedAt'.paused (h : PausedAt' s0 s G A B) : Paused s := by
  obtain ⟨ing, hi, _⟩ := h.ingesting
  simp [Paused, hi]

theorem _root_.Btc.Spec.InvAll.not_paused (h : InvAll s G) : ¬ Paused s := by
  simp [Paused, h.notIngesting]

/-! ### Continuing the ingestion -/

theorem stableChildIdx_none_of_peek {bound : Unstable.BoundFn} {u : Unstable}
    (h : Unstable.peek bound u = none) : Unstable.stableChildIdx bound u = none := by
  unfold Unstable.peek at h
  cases hi : Unstable.stableChildIdx bound u with
  | none => rfl
  | some i => rw [hi] at h; cases h

theorem popBlock_none_of_peek {bound : Unstable.BoundFn} {st : State}
    (h : Unstable.peek bound st.unstable = none) (hash : Nat) :
    State.popBlock bound st hash = none := by
  unfold State.popBlock Unstable.pop
  rw [stableChildIdx_none_of_peek h]

/-- **A further round on a paused state.** Either it pauses again inside the same block, or it
    traps, or it returns exactly what the call on the state `s0` (before the block's ingestion
    began) returns with the accumulated budget.  The trap alternative is real: if `set_config` (or
    an upgrade with a config) raised the stability threshold while the block was partially
    ingested so that the anchor is no longer stable, the block is finished, `pop` returns `None`
    and `pop_block` panics (`popped_block.unwrap()`). -/
theorem resume_cases (bound : Unstable.BoundFn) (hA : InvAll s0 G) (hP : PausedAt' s0 s G A B)
    (b : Nat) :
    (∃ u2, s.ingestStable bound b = .paused { s with utxos := u2 } ∧
      s0.utxos.ingestBlock A.blk (B + b) = .paused u2 ∧
      s.utxos.ingestContinue b = some (.paused u2)) ∨
    (∃ m, s.ingestStable bound b = .trap m) ∨
    s.ingestStable bound b = s0.ingestStable bound (B + b) := by
  have hI := hA.invU.inv
  have hcont : s.utxos.ingestContinue b = some (s0.utxos.ingestBlock A.blk (B + b)) :=
    Props.C08.pause_resume s0.utxos A.blk B s.utxos hI.stable.notIngesting hP.round b
  cases hpeek : Unstable.peek bound s0.unstable with
  | some anchor =>
    right; right
    obtain ⟨_, _, hanchor⟩ := peek_eq bound s0.unstable anchor hpeek
    have hAa : anchor = A := hanchor.trans hP.base.anchor
    subst hAa
    have hround := hP.round
    have hs := hP.state_eq
    generalize s.utxos = u at hs hround
    subst hs
    rw [Props.C08.resume_eq bound s0 G B anchor u hI hpeek hround b s0.unstable.tree.blocksCount false
      (Nat.lt_succ_self _)]
    exact (Props.C08.ingestStable_eq_loop bound s0 G (B + b) hI).symm
  | none =>
    have hpeek' : Unstable.peek bound s.unstable = none := by rw [hP.unstable]; exact hpeek
    cases hr : s0.utxos.ingestBlock A.blk (B + b) with
    | paused u2 =>
      rw [hr] at hcont
      left
      refine ⟨u2, ?_, rfl, hcont⟩
      unfold State.ingestStable
      simp only [hcont]
    | trap m =>
      rw [hr] at hcont
      right; left
      refine ⟨m, ?_⟩
      unfold State.ingestStable
      simp only [hcont]
    | done u' w1 =>
      rw [hr] at hcont
      right; left
      refine ⟨"popped block differs from ingested block", ?_⟩
      unfold State.ingestStable
      simp only [hcont]
      rw [popBlock_none_of_peek (st := { s with utxos := u' }) hpeek']

/-- **The `ingest` operation from a paused state.** -/
theorem paused_ingest (bound : Unstable.BoundFn) (hA : InvAll s0 G) (hP : PausedAt' s0 s G A B)
    (b : Nat) :
    match s.ingestStable bound b with
    | .done s' _ => InvAll s' (G ++ poppedAnchors s s')
    | .paused sp => ∃ sk A' B', InvAll sk (G ++ poppedAnchors s sp) ∧
        PausedAt' sk sp (G ++ poppedAnchors s sp) A' B'
    | .trap _ => True := by
  rcases resume_cases bound hA hP b with ⟨u2, h1, h2, h3⟩ | ⟨m, h1⟩ | h1
  · rw [h1]
    simp only
    rw [poppedAnchors_same (s := s) (x := { s with utxos := u2 }) rfl, List.append_nil]
    exact ⟨s0, A, B + b, hA, Props.C08.pausedAt_next hP.base b u2 h3, h2⟩
  · rw [h1]; trivial
  · rw [h1]
    cases hr : s0.ingestStable bound (B + b) with
    | trap m => trivial
    | done s' w =>
      simp only
      rw [poppedAnchors_congr hP.unstable]
      exact ingest_done_all bound (B + b) hA hr
    | paused sp =>
      simp only
      rw [poppedAnchors_congr hP.unstable]
      exact ingest_paused_all bound (B + b) hA hr

/-! ### `set_config`, upgrade, announced headers while paused -/

theorem setConfig_record (st : State) (u : UtxoSet) (H : HeaderStore) (c : State.SetConfig) :
    ({ st with utxos := u, headers := H } : State).setConfig c =
      { st.setConfig c with utxos := u, headers := H } := by
  rcases c with ⟨_ | _, _ | _, _ | _, _ | _, _ | _, _ | _⟩ <;> rfl

theorem upgrade_record (st : State) (u : UtxoSet) (H : HeaderStore) (c : Option State.SetConfig) :
    ({ st with utxos := u, headers := H } : State).upgrade c =
      { st.upgrade c with utxos := u, headers := H } := by
  cases c with
  | none => rfl
  | some c => exact setConfig_record (upgraded st) u H c

theorem utxos_upgrade (st : State) (c : Option State.SetConfig) : (st.upgrade c).utxos = st.utxos := by
  rw [upgrade_eq]
  cases c with
  | none => rfl
  | some c => exact (setConfig_frame _ c).1

theorem root_upgrade (st : State) (c : Option State.SetConfig) :
    (st.upgrade c).unstable.tree.root = clearF st.unstable.tree.root := by
  rw [upgrade_eq]
  cases c with
  | none => simp only; rw [upgraded_tree, root_mapT]
  | some c => simp only; rw [(setConfig_frame _ c).2.2.1, upgraded_tree, root_mapT]

/-- a paused state after an operation `f` that commutes with the two fields a pause touches and
    leaves the stable set, the header store and the anchor's block alone -/
theorem pausedAt'_map (f : State → State) (A' : CBlock)
    (hrec : ∀ (st : State) (u : UtxoSet) (H : HeaderStore),
      f { st with utxos := u, headers := H } = { f st with utxos := u, headers := H })
    (hu : (f s0).utxos = s0.utxos) (hh : (f s0).headers = s0.headers)
    (hroot : (f s0).unstable.tree.root = A') (hblk : A'.blk = A.blk)
    (hI : Inv (f s0) G) (hP : PausedAt' s0 s G A B) : PausedAt' (f s0) (f s) G A' B := by
  have hs := hP.base.eq
  have hfs : f s = { f s0 with utxos := s.utxos, headers := s0.headers.insert A.blk G.length } := by
    have := hrec s0 s.utxos (s0.headers.insert A.blk G.length)
    rw [← hs] at this
    exact this
  have hfu : (f s).utxos = s.utxos := by rw [hfs]
  refine ⟨⟨hI, hroot, ?_, ?_⟩, ?_⟩
  · rw [hu, hblk, hfu]; exact hP.base.view
  · rw [hfu, hh, hblk]; exact hfs
  · rw [hu, hblk, hfu]; exact hP.round

theorem pausedAt'_setConfig (c : State.SetConfig) (hA : InvAll s0 G) (hP : PausedAt' s0 s G A B) :
    PausedAt' (s0.setConfig c) (s.setConfig c) G A B :=
  pausedAt'_map (fun st => st.setConfig c) A (fun st u H => setConfig_record st u H c)
    (setConfig_frame s0 c).1 (headers_setConfig s0 c)
    (by rw [(setConfig_frame s0 c).2.2.1]; exact hP.base.anchor) rfl
    (setConfig_preserves_invU s0 G c hA.invU).inv hP

theorem pausedAt'_upgrade (c : Option State.SetConfig) (hA : InvAll s0 G)
    (hP : PausedAt' s0 s G A B) : PausedAt' (s0.upgrade c) (s.upgrade c) G (clearF A) B :=
  pausedAt'_map (fun st => st.upgrade c) (clearF A) (fun st u H => upgrade_record st u H c)
    (utxos_upgrade s0 c) (headers_upgrade s0 c)
    (by rw [root_upgrade, hP.base.anchor]) (clearF_blk A)
    (upgrade_preserves_invU s0 G c hA.invU).inv hP

theorem insertNextHeader_tree {u u' : Unstable} {h : NextHeader} {n : Nat}
    (hi : u.insertNextHeader h n = some u') : u'.tree = u.tree := by
  unfold Unstable.insertNextHeader at hi
  simp only at hi
  split at hi
  · cases hi
  · simp only [Option.some.injEq] at hi
    rw [← hi]

theorem pausedAt'_unstable (u : Unstable) (hroot : u.tree.root = A)
    (hI : Inv { s0 with unstable := u } G) (hP : PausedAt' s0 s G A B) :
    PausedAt' { s0 with unstable := u } { s with unstable := u } G A B :=
  pausedAt'_map (fun st => { st with unstable := u }) A (fun _ _ _ => rfl) rfl rfl hroot rfl hI hP

/-! ### Every step preserves `Inv2` -/

theorem domain_of_domain2 {sg : State × List Block} {op : Op} (h : Domain2 sg op) : Domain sg op := by
  cases op with
  | push b => exact h.2
  | insertNext hd => exact h
  | ingest _ => trivial
  | setConfig _ => trivial
  | upgrade _ => trivial
  | query => trivial

/-- `step2` on an operation other than `ingest` is `step` -/
theorem step2_eq_step (bound : Unstable.BoundFn) (sg : State × List Block) (op : Op)
    (h : ∀ b, op ≠ .ingest b) : step2 bound sg op = step bound sg op := by
  cases op with
  | ingest b => exact absurd rfl (h b)
  | push _ => rfl
  | insertNext _ => rfl
  | setConfig _ => rfl
  | upgrade _ => rfl
  | query => rfl

theorem step2_ingest (bound : Unstable.BoundFn) (sg : State × List Block) (b : Nat) :
    step2 bound sg (.ingest b) =
      match sg.1.ingestStable bound b with
      | .done s' _ => some (s', sg.2 ++ poppedAnchors sg.1 s')
      | .paused sp => some (sp, sg.2 ++ poppedAnchors sg.1 sp)
      | .trap _ => none := rfl

/-- a step from a clean state -/
theorem step2_clean (bound : Unstable.BoundFn) (s : State) (G : List Block) (op : Op)
    (s' : State) (G' : List Block) (hA : InvAll s G) (hd : Domain2 (s, G) op)
    (hs : step2 bound (s, G) op = some (s', G')) : Inv2 s' G' := by
  by_cases hop : ∃ b, op = .ingest b
  · obtain ⟨b, rfl⟩ := hop
    rw [step2_ingest] at hs
    simp only at hs
    cases hr : s.ingestStable bound b with
    | trap m => rw [hr] at hs; cases hs
    | done s1 w =>
      rw [hr] at hs
      simp only [Option.some.injEq, Prod.mk.injEq] at hs
      obtain ⟨rfl, rfl⟩ := hs
      exact Or.inl (ingest_done_all bound b hA hr)
    | paused sp =>
      rw [hr] at hs
      simp only [Option.some.injEq, Prod.mk.injEq] at hs
      obtain ⟨rfl, rfl⟩ := hs
      exact Or.inr (ingest_paused_all bound b hA hr)
  · rw [step2_eq_step bound _ op (fun b e => hop ⟨b, e⟩)] at hs
    exact Or.inl (step_preserves_invAll bound s G op s' G' hA (domain_of_domain2 hd) hs)

/-- a step from a paused state -/
theorem step2_paused (bound : Unstable.BoundFn) (s : State) (G : List Block) (op : Op)
    (s' : State) (G' : List Block) (s0 : State) (A : CBlock) (B : Nat) (hA : InvAll s0 G)
    (hP : PausedAt' s0 s G A B) (hd : Domain2 (s, G) op)
    (hs : step2 bound (s, G) op = some (s', G')) : Inv2 s' G' := by
  cases op with
  | push b =>
    obtain ⟨ing, hi, _⟩ := hP.ingesting
    have := hd.1
    simp only at this
    rw [hi] at this
    cases this
  | ingest b =>
    rw [step2_ingest] at hs
    simp only at hs
    have hpi := paused_ingest bound hA hP b
    cases hr : s.ingestStable bound b with
    | trap m => rw [hr] at hs; cases hs
    | done s1 w =>
      rw [hr] at hs hpi
      simp only [Option.some.injEq, Prod.mk.injEq] at hs
      obtain ⟨rfl, rfl⟩ := hs
      exact Or.inl hpi
    | paused sp =>
      rw [hr] at hs hpi
      simp only [Option.some.injEq, Prod.mk.injEq] at hs
      obtain ⟨rfl, rfl⟩ := hs
      exact Or.inr hpi
  | setConfig c =>
    simp only [step2, step, Option.some.injEq, Prod.mk.injEq] at hs
    obtain ⟨rfl, rfl⟩ := hs
    exact Or.inr ⟨s0.setConfig c, A, B, invAll_setConfig c hA, pausedAt'_setConfig c hA hP⟩
  | upgrade c =>
    simp only [step2, step, Option.some.injEq, Prod.mk.injEq] at hs
    obtain ⟨rfl, rfl⟩ := hs
    exact Or.inr ⟨s0.upgrade c, clearF A, B, invAll_upgrade c hA, pausedAt'_upgrade c hA hP⟩
  | query =>
    simp only [step2, step, Option.some.injEq, Prod.mk.injEq] at hs
    obtain ⟨rfl, rfl⟩ := hs
    exact Or.inr ⟨s0, A, B, hA, hP⟩
  | insertNext hd' =>
    have hkeep : Inv2 s G := Or.inr ⟨s0, A, B, hA, hP⟩
    have hsh : s.stableHeight = s0.stableHeight := hP.nextHeight
    simp only [step2, step] at hs
    rw [hP.unstable, hsh] at hs
    split at hs
    · simp only [Option.some.injEq, Prod.mk.injEq] at hs
      obtain ⟨rfl, rfl⟩ := hs
      exact hkeep
    · rename_i hnew
      cases hi : s0.unstable.insertNextHeader hd' s0.stableHeight with
      | none =>
        rw [hi] at hs
        simp only [Option.some.injEq, Prod.mk.injEq] at hs
        obtain ⟨rfl, rfl⟩ := hs
        exact hkeep
      | some u =>
        rw [hi] at hs
        simp only [Option.some.injEq, Prod.mk.injEq] at hs
        obtain ⟨rfl, rfl⟩ := hs
        have hd0 : Domain (s0, G) (.insertNext hd') := by
          have := hd
          simp only [Domain2] at this
          rw [hP.unstable] at this
          exact this
        have hstep : step bound (s0, G) (.insertNext hd') = some ({ s0 with unstable := u }, G) := by
          simp only [step, hnew, hi]
          rfl
        have hA' := step_preserves_invAll bound s0 G _ _ _ hA hd0 hstep
        refine Or.inr ⟨{ s0 with unstable := u }, A, B, hA', ?_⟩
        exact pausedAt'_unstable u (by rw [insertNextHeader_tree hi]; exact hP.base.anchor)
          hA'.invU.inv hP

/-- **every step of the extended system preserves the invariant** -/
theorem step2_preserves_inv2 (bound : Unstable.BoundFn) (s : State) (G : List Block) (op : Op)
    (s' : State) (G' : List Block) (h : Inv2 s G) (hd : Domain2 (s, G) op)
    (hs : step2 bound (s, G) op = some (s', G')) : Inv2 s' G' := by
  rcases h with hA | ⟨s0, A, B, hA, hP⟩
  · exact step2_clean bound s G op s' G' hA hd hs
  · exact step2_paused bound s G op s' G' s0 A B hA hP hd hs

theorem reachable2_inv2 {bound : Unstable.BoundFn} {s : State} {G : List Block}
    (h : Reachable2 bound s G) : Inv2 s G := by
  induction h with
  | init thr net genesis s0 hv hn => exact Or.inl (init_establishes_invAll thr net genesis s0 hv hn)
  | step s G op s' G' _ hd hs ih => exact step2_preserves_inv2 bound s G op s' G' ih hd hs

/-- **The invariant of the extended system.** In every state reachable by any history of pushes,
    (possibly paused and resumed) ingestions, `set_config`s, upgrades, announced headers and
    queries: if no block is partially ingested the full invariant holds; otherwise the state is
    `PausedAt'` the anchor `A` of a state `s0` that satisfies the full invariant for the same
    ghost (`s0` = the state before the ingestion of `A` began, transported through the
    `set_config`s / upgrades / announced headers that happened since). -/
theorem reachable2_inv {bound : Unstable.BoundFn} {s : State} {G : List Block}
    (h : Reachable2 bound s G) :
    (¬ Paused s → InvAll s G) ∧
    (Paused s → ∃ s0 A B, InvAll s0 G ∧ PausedAt' s0 s G A B) := by
  rcases reachable2_inv2 h with hA | ⟨s0, A, B, hA, hP⟩
  · exact ⟨fun _ => hA, fun hp => absurd hp hA.not_paused⟩
  · exact ⟨fun hn => absurd hP.paused hn, fun _ => ⟨s0, A, B, hA, hP⟩⟩

/-- the system of `Spec/Reach.lean` is a sub-system -/
theorem reachable_reachable2 {bound : Unstable.BoundFn} {s : State} {G : List Block}
    (h : Reachable bound s G) : Reachable2 bound s G := by
  induction h with
  | init thr net genesis s0 hv hn => exact Reachable2.init thr net genesis s0 hv hn
  | step s G op s' G' hr hd hs ih =>
    have hni := (reachable_inv hr).inv.stable.notIngesting
    refine Reachable2.step s G op s' G' ih ?_ ?_
    · cases op with
      | push b => exact ⟨hni, hd⟩
      | insertNext hd' => exact hd
      | ingest _ => trivial
      | setConfig _ => trivial
      | upgrade _ => trivial
      | query => trivial
    · cases op with
      | ingest b =>
        rw [step2_ingest]
        simp only [step] at hs ⊢
        cases hr' : s.ingestStable bound b with
        | trap m => rw [hr'] at hs; cases hs
        | paused sp => rw [hr'] at hs; cases hs
        | done s1 w => rw [hr'] at hs; exact hs
      | push _ => exact hs
      | insertNext _ => exact hs
      | setConfig _ => exact hs
      | upgrade _ => exact hs
      | query => exact hs

/-! ### Runs -/

theorem runOps2_append (bound : Unstable.BoundFn) : ∀ (ops1 ops2 : List Op) (sg : State × List Block),
    runOps2 bound sg (ops1 ++ ops2) = (runOps2 bound sg ops1).bind (fun sg' => runOps2 bound sg' ops2)
  | [], _, _ => rfl
  | op :: ops1, ops2, sg => by
    simp only [List.cons_append, runOps2]
    cases step2 bound sg op with
    | none => rfl
    | some sg1 => simp only [Option.bind_some]; exact runOps2_append bound ops1 ops2 sg1

/-- a run of the extended system whose operations are in their domains stays reachable -/
theorem runOps2_reachable2 {bound : Unstable.BoundFn} : ∀ (ops : List Op) (sg sg' : State × List Block),
    Reachable2 bound sg.1 sg.2 → DomainAll2 bound sg ops → runOps2 bound sg ops = some sg' →
    Reachable2 bound sg'.1 sg'.2
  | [], sg, sg', hr, _, h => by
    simp only [runOps2, Option.some.injEq] at h
    subst h; exact hr
  | op :: ops, sg, sg', hr, hd, h => by
    simp only [runOps2] at h
    cases hs : step2 bound sg op with
    | none => rw [hs] at h; cases h
    | some sg1 =>
      rw [hs] at h
      simp only [Option.bind_some] at h
      exact runOps2_reachable2 ops sg1 sg'
        (Reachable2.step sg.1 sg.2 op sg1.1 sg1.2 hr hd.1 hs) (hd.2 sg1 hs) h

/-- operations whose domain is unconditional -/
def FreeOp : Op → Prop
  | .push _ => False
  | .insertNext _ => False
  | _ => True

theorem domainAll2_free (bound : Unstable.BoundFn) : ∀ (ops : List Op) (sg : State × List Block),
    (∀ op ∈ ops, FreeOp op) → DomainAll2 bound sg ops
  | [], _, _ => trivial
  | op :: ops, sg, h => by
    refine ⟨?_, fun sg' _ => domainAll2_free bound ops sg' (fun o ho => h o (List.mem_cons_of_mem _ ho))⟩
    have := h op List.mem_cons_self
    cases op with
    | push _ => exact this.elim
    | insertNext _ => exact this.elim
    | ingest _ => trivial
    | setConfig _ => trivial
    | upgrade _ => trivial
    | query => trivial

/-- the ghost only grows: a step appends the blocks that left the tree -/
theorem step2_ghost_prefix (bound : Unstable.BoundFn) (s : State) (G : List Block) (op : Op)
    (s' : State) (G' : List Block) (hs : step2 bound (s, G) op = some (s', G')) : G <+: G' := by
  cases op with
  | ingest b =>
    rw [step2_ingest] at hs
    simp only at hs
    split at hs
    · simp only [Option.some.injEq, Prod.mk.injEq] at hs
      rw [← hs.2]; exact List.prefix_append _ _
    · simp only [Option.some.injEq, Prod.mk.injEq] at hs
      rw [← hs.2]; exact List.prefix_append _ _
    · cases hs
  | push b =>
    simp only [step2, step] at hs
    split at hs
    · simp only [Option.some.injEq, Prod.mk.injEq] at hs
      rw [← hs.2]; exact List.prefix_refl _
    · cases hs
  | setConfig c =>
    simp only [step2, step, Option.some.injEq, Prod.mk.injEq] at hs
    rw [← hs.2]; exact List.prefix_refl _
  | upgrade c =>
    simp only [step2, step, Option.some.injEq, Prod.mk.injEq] at hs
    rw [← hs.2]; exact List.prefix_refl _
  | query =>
    simp only [step2, step, Option.some.injEq, Prod.mk.injEq] at hs
    rw [← hs.2]; exact List.prefix_refl _
  | insertNext hd =>
    simp only [step2, step] at hs
    split at hs
    · simp only [Option.some.injEq, Prod.mk.injEq] at hs
      rw [← hs.2]; exact List.prefix_refl _
    · split at hs
      · simp only [Option.some.injEq, Prod.mk.injEq] at hs
        rw [← hs.2]; exact List.prefix_refl _
      · simp only [Option.some.injEq, Prod.mk.injEq] at hs
        rw [← hs.2]; exact List.prefix_refl _

/-- **Progress in the extended system**: from a reachable state, an operation in its domain fails
    to complete only if it is an `ingest` whose call traps — and from a state in which no block is
    partially ingested that never happens. -/
theorem step2_none_clean (bound : Unstable.BoundFn) (s : State) (G : List Block) (op : Op)
    (hA : InvAll s G) (hd : Domain2 (s, G) op) : (step2 bound (s, G) op).isSome = true := by
  by_cases hop : ∃ b, op = .ingest b
  · obtain ⟨b, rfl⟩ := hop
    rw [step2_ingest]
    have := ingest_stable_preserves_invU bound s G b hA.invU
    cases hr : s.ingestStable bound b with
    | trap m => rw [hr] at this; exact this.elim
    | done s1 w => rfl
    | paused sp => rfl
  · rw [step2_eq_step bound _ op (fun b e => hop ⟨b, e⟩)]
    cases h : step bound (s, G) op with
    | some x => rfl
    | none =>
      obtain ⟨b, _, e, _⟩ := (step_none_iff bound s G op hA.invU (domain_of_domain2 hd)).mp h
      exact absurd ⟨b, e⟩ hop

end Btc.Lemmas.Reach2
