import BtcModel.Spec.Reach2
import BtcModel.Lemmas.ReachNext
import BtcModel.Lemmas.Headers
import BtcModel.Props.C08

/-!
  The full invariant `Spec.InvAll` for the operations of the extended transition system
  (`Spec/Reach2.lean`) that start in a state in which no block is partially ingested:
  every operation of `Spec.step`, and an `ingest` that pauses (`ingest_paused_all`: the paused
  state is `PausedAt'` the anchor of a state satisfying `InvAll`).
-/
namespace Btc.Lemmas.Reach2
open Btc Btc.Spec Btc.Tree Btc.Lemmas.Reach Btc.Lemmas.ReachNext Btc.Props.InvIngest

/-! ### The header store -/

theorem _root_.Btc.Spec.HeadersOk.empty : HeadersOk ({} : HeaderStore) := ⟨by simp, by simp⟩

theorem _root_.Btc.Spec.HeadersOk.insert {hs : HeaderStore} (h : HeadersOk hs) (b : Block) (n : Nat) :
    HeadersOk (hs.insert b n) :=
  ⟨AList.nodup_keys_insert hs.byHeight n b.hash h.heights,
   AList.nodup_keys_insert hs.byHash b.hash _ h.hashes⟩

theorem headersOk_insertHeaders : ∀ (bs : List Block) (hs : HeaderStore) (n : Nat),
    HeadersOk hs → HeadersOk (insertHeaders hs bs n)
  | [], _, _, h => h
  | b :: bs, hs, n, h => headersOk_insertHeaders bs (hs.insert b n) (n + 1) (h.insert b n)

theorem _root_.Btc.Spec.HeadersOk.insertHeaders {hs : HeaderStore} (h : HeadersOk hs)
    (bs : List Block) (n : Nat) : HeadersOk (insertHeaders hs bs n) :=
  headersOk_insertHeaders bs hs n h

theorem _root_.Btc.Spec.HeadersOk.heightsNodup {hs : HeaderStore} (h : HeadersOk hs) : HeightsNodup hs := h.heights

/-! ### `PausedAt'` -/

/-- `C08.PausedAt` plus the budget spent so far on the anchor: the stable set of `s` is what the
    first round on the anchor returns with budget `B` (so that a further round with budget `b` is
    the first round with budget `B + b`, `C08.pause_resume`). -/
structure PausedAt' (s0 s : State) (G : List Block) (A : CBlock) (B : Nat) : Prop where
  base : Props.C08.PausedAt s0 s G A
  round : s0.utxos.ingestBlock A.blk B = .paused s.utxos

/-- the invariant of all states of the extended system -/
def Inv2 (s : State) (G : List Block) : Prop :=
  InvAll s G ∨ ∃ s0 A B, InvAll s0 G ∧ PausedAt' s0 s G A B

theorem _root_.Btc.Spec.InvAll.notIngesting {s : State} {G : List Block} (h : InvAll s G) :
    s.utxos.ingesting = none := h.invU.inv.stable.notIngesting

theorem PausedAt'.ingesting {s0 s : State} {G : List Block} {A : CBlock} {B : Nat}
    (h : PausedAt' s0 s G A B) : ∃ ing, s.utxos.ingesting = some ing ∧ ing.block = A.blk := by
  obtain ⟨u', ing, l, T, he, hp, _⟩ := h.base.view.unpack
  exact ⟨ing, by rw [he], hp.block⟩

/-! ### Steps of `Spec.step` from a clean state -/

theorem nextInv_setConfig {s : State} (c : State.SetConfig) (h : NextInv s) :
    NextInv (s.setConfig c) := by
  obtain ⟨h1, _, h3, _, _, _, h7, _⟩ := setConfig_frame s c
  unfold NextInv
  rw [h1]
  exact nextInvAt_congr h7 (by rw [h3]) h

theorem nextInv_upgrade {s : State} (c : Option State.SetConfig) (h : NextInv s) :
    NextInv (s.upgrade c) := by
  have hup : NextInv (upgraded s) := nextInvAt_congr (u := s.unstable) rfl (upgraded_hashes s) h
  rw [upgrade_eq]
  cases c with
  | none => exact hup
  | some c => exact nextInv_setConfig c hup

theorem headers_setConfig (s : State) (c : State.SetConfig) : (s.setConfig c).headers = s.headers :=
  (setConfig_frame s c).2.1

theorem headers_upgrade (s : State) (c : Option State.SetConfig) : (s.upgrade c).headers = s.headers := by
  rw [upgrade_eq]
  cases c with
  | none => rfl
  | some c => exact headers_setConfig _ c

theorem invAll_setConfig {s : State} {G : List Block} (c : State.SetConfig) (h : InvAll s G) :
    InvAll (s.setConfig c) G :=
  ⟨setConfig_preserves_invU s G c h.invU, nextInv_setConfig c h.next,
   by rw [headers_setConfig]; exact h.headers⟩

theorem invAll_upgrade {s : State} {G : List Block} (c : Option State.SetConfig) (h : InvAll s G) :
    InvAll (s.upgrade c) G :=
  ⟨upgrade_preserves_invU s G c h.invU, nextInv_upgrade c h.next,
   by rw [headers_upgrade]; exact h.headers⟩

/-- the announced-header part of one step (as in `ReachNext.reachable_next`) -/
theorem step_preserves_next (bound : Unstable.BoundFn) (s : State) (G : List Block) (op : Op)
    (s' : State) (G' : List Block) (hU : InvU s G) (ih : NextInv s) (hd : Domain (s, G) op)
    (hs : step bound (s, G) op = some (s', G')) : NextInv s' := by
  cases op with
  | push b =>
    obtain ⟨u', hp, _, cb, hcb, hperm, hnext, _⟩ := push_preserves_invU s G b hU hd
    simp only [step, hp, Option.some.injEq, Prod.mk.injEq] at hs
    obtain ⟨rfl, rfl⟩ := hs
    apply nextInvAt_push (b := b) ih hnext
    intro c hc
    rcases List.mem_cons.mp (hperm.mem_iff.mp hc) with e | e
    · left; rw [e, CBlock.hash, hcb]
    · exact Or.inr e
  | ingest budget =>
    have := ingest_stable_preserves_invU bound s G budget hU
    simp only [step] at hs
    cases hr : s.ingestStable bound budget with
    | trap m => rw [hr] at hs; cases hs
    | paused sp => rw [hr] at hs; cases hs
    | done s1 w =>
      rw [hr] at hs this
      simp only [Option.some.injEq, Prod.mk.injEq] at hs
      obtain ⟨rfl, rfl⟩ := hs
      obtain ⟨popped, _, i2, _, _, _, _, i7, _⟩ := this
      unfold NextInv at ih ⊢
      rw [i2]
      rw [hU.inv.heightEq] at ih
      exact nextInvAt_popSteps i7 ih
  | setConfig c =>
    simp only [step, Option.some.injEq, Prod.mk.injEq] at hs
    obtain ⟨rfl, rfl⟩ := hs
    exact nextInv_setConfig c ih
  | upgrade c =>
    simp only [step, Option.some.injEq, Prod.mk.injEq] at hs
    obtain ⟨rfl, rfl⟩ := hs
    exact nextInv_upgrade c ih
  | query =>
    simp only [step, Option.some.injEq, Prod.mk.injEq] at hs
    obtain ⟨rfl, rfl⟩ := hs
    exact ih
  | insertNext hd' =>
    simp only [step] at hs
    split at hs
    · simp only [Option.some.injEq, Prod.mk.injEq] at hs
      obtain ⟨rfl, rfl⟩ := hs
      exact ih
    · rename_i hnew
      cases hi : s.unstable.insertNextHeader hd' s.stableHeight with
      | none =>
        rw [hi] at hs
        simp only [Option.some.injEq, Prod.mk.injEq] at hs
        obtain ⟨rfl, rfl⟩ := hs
        exact ih
      | some u =>
        rw [hi] at hs
        simp only [Option.some.injEq, Prod.mk.injEq] at hs
        obtain ⟨rfl, rfl⟩ := hs
        exact nextInvAt_insert ih hnew hd hi

/-- the header-store part of one step: only a completed ingestion writes it -/
theorem step_preserves_headers (bound : Unstable.BoundFn) (s : State) (G : List Block) (op : Op)
    (s' : State) (G' : List Block) (hU : InvU s G) (ih : HeadersOk s.headers)
    (hs : step bound (s, G) op = some (s', G')) : HeadersOk s'.headers := by
  cases op with
  | push b =>
    simp only [step] at hs
    split at hs
    · simp only [Option.some.injEq, Prod.mk.injEq] at hs
      obtain ⟨rfl, rfl⟩ := hs
      exact ih
    · cases hs
  | ingest budget =>
    have := ingest_stable_preserves_invU bound s G budget hU
    simp only [step] at hs
    cases hr : s.ingestStable bound budget with
    | trap m => rw [hr] at hs; cases hs
    | paused sp => rw [hr] at hs; cases hs
    | done s1 w =>
      rw [hr] at hs this
      simp only [Option.some.injEq, Prod.mk.injEq] at hs
      obtain ⟨rfl, rfl⟩ := hs
      obtain ⟨popped, _, _, i3, _⟩ := this
      rw [i3]
      exact ih.insertHeaders _ _
  | setConfig c =>
    simp only [step, Option.some.injEq, Prod.mk.injEq] at hs
    obtain ⟨rfl, rfl⟩ := hs
    rw [headers_setConfig]; exact ih
  | upgrade c =>
    simp only [step, Option.some.injEq, Prod.mk.injEq] at hs
    obtain ⟨rfl, rfl⟩ := hs
    rw [headers_upgrade]; exact ih
  | query =>
    simp only [step, Option.some.injEq, Prod.mk.injEq] at hs
    obtain ⟨rfl, rfl⟩ := hs
    exact ih
  | insertNext hd' =>
    simp only [step] at hs
    split at hs
    · simp only [Option.some.injEq, Prod.mk.injEq] at hs
      obtain ⟨rfl, rfl⟩ := hs
      exact ih
    · cases hi : s.unstable.insertNextHeader hd' s.stableHeight with
      | none =>
        rw [hi] at hs
        simp only [Option.some.injEq, Prod.mk.injEq] at hs
        obtain ⟨rfl, rfl⟩ := hs
        exact ih
      | some u =>
        rw [hi] at hs
        simp only [Option.some.injEq, Prod.mk.injEq] at hs
        obtain ⟨rfl, rfl⟩ := hs
        exact ih

/-- **every step of `Spec.step` preserves the full invariant** -/
theorem step_preserves_invAll (bound : Unstable.BoundFn) (s : State) (G : List Block) (op : Op)
    (s' : State) (G' : List Block) (h : InvAll s G) (hd : Domain (s, G) op)
    (hs : step bound (s, G) op = some (s', G')) : InvAll s' G' :=
  ⟨step_preserves_invU bound s G op s' G' h.invU hd hs,
   step_preserves_next bound s G op s' G' h.invU h.next hd hs,
   step_preserves_headers bound s G op s' G' h.invU h.headers hs⟩

theorem init_establishes_invAll (thr : Nat) (net : Tree.Net) (genesis : Block) (s0 : State)
    (hv : TxValid [genesis]) (hn : State.new thr net genesis = some s0) : InvAll s0 [] := by
  obtain ⟨_, hh, _, hnext, _⟩ := new_shape' hn
  refine ⟨init_establishes_invU thr net genesis s0 hv hn, ?_, by rw [hh]; exact HeadersOk.empty⟩
  refine ⟨by rw [hnext]; exact Lemmas.NextHeaders.nextOk_empty, ?_, ?_⟩
  · intro x ht hg
    rw [hnext] at hg
    simp [NextBlockHeaders.getHeight] at hg
  · intro c _
    rw [hnext]
    rfl

/-! ### An ingestion that pauses, from a clean state -/

theorem poppedAnchors_congr {s s1 : State} (h : s.unstable = s1.unstable) (x : State) :
    poppedAnchors s x = poppedAnchors s1 x := by
  unfold poppedAnchors; rw [h]

theorem poppedAnchors_congr_right (s : State) {x x1 : State} (h : x.unstable = x1.unstable) :
    poppedAnchors s x = poppedAnchors s x1 := by
  unfold poppedAnchors; rw [h]

theorem poppedAnchors_same {s x : State} (h : x.unstable = s.unstable) : poppedAnchors s x = [] := by
  unfold poppedAnchors
  rw [h, pathBlocks_root']
  rfl

theorem poppedAnchors_of_popSteps {bound : Unstable.BoundFn} {s x : State} {G : List Block}
    {n : Nat} {popped : List Block} (hI : Inv s G)
    (h : PopSteps bound s.unstable n popped x.unstable) : poppedAnchors s x = popped := by
  unfold poppedAnchors
  rw [popSteps_path bound h (tree_hashes_nodup hI)]
  simp

/-- what the loop leaves when it pauses: it pauses inside the anchor `A` of a state `sk` that
    satisfies the full invariant for the stable chain extended by the blocks popped before -/
theorem ingestNewStable_paused_all (bound : Unstable.BoundFn) :
    ∀ (fuel : Nat) (s : State) (G : List Block) (B : Nat) (w : Bool) (sp : State), InvU s G →
      NextInvAt s.unstable G.length → HeadersOk s.headers →
      State.ingestNewStable bound fuel s B w = .paused sp →
      ∃ popped sk A B', InvU sk (G ++ popped) ∧
        NextInvAt sk.unstable (G.length + popped.length) ∧ HeadersOk sk.headers ∧
        PausedAt' sk sp (G ++ popped) A B' ∧ PopSteps bound s.unstable G.length popped sk.unstable
  | 0, s, G, B, w, sp, _, _, _, h => by simp [State.ingestNewStable] at h
  | fuel + 1, s, G, B, w, sp, hI, hN, hH, h => by
    cases hpeek : Unstable.peek bound s.unstable with
    | none => rw [Props.C08.ingestNewStable_none _ _ _ _ _ hpeek] at h; cases h
    | some anchor =>
      rcases ingest_step_U bound s G B anchor hI hpeek with
        ⟨_, h2⟩ | ⟨_, u', s2, hu', hpop, hI2, hF, hHd, hlt, hpp⟩
      · cases hr : s.utxos.ingestBlock anchor.blk B with
        | paused up =>
          rw [Props.C08.ingestNewStable_paused_step _ _ _ _ _ _ up hpeek hr] at h
          simp only [State.IngestResult.paused.injEq] at h
          subst h
          refine ⟨[], s, anchor, B, by simpa using hI, by simpa using hN, hH, ⟨?_, hr⟩,
            PopSteps.nil _ _⟩
          simpa using Props.C08.pausedAt_first bound s G B anchor up hI.inv hpeek hr
        | done a b => rw [hr] at h2; cases h2
        | trap m => rw [hr] at h2; cases h2
      · rw [Props.C08.ingestNewStable_done_step _ _ _ _ _ _ u' _ s2 hpeek hu' hpop] at h
        have hN2 : NextInvAt s2.unstable ((G ++ [anchor.blk]).length) := by
          simpa using nextInvAt_pop hN hpp
        have hH2 : HeadersOk s2.headers := by rw [hHd]; exact hH.insert _ _
        obtain ⟨popped, sk, A, B', k1, k2, k3, k4, k5⟩ :=
          ingestNewStable_paused_all bound fuel s2 (G ++ [anchor.blk]) _ true sp hI2 hN2 hH2 h
        refine ⟨anchor.blk :: popped, sk, A, B', by simpa using k1, ?_, k3, by simpa using k4, ?_⟩
        · have e : G.length + (anchor.blk :: popped).length =
              (G ++ [anchor.blk]).length + popped.length := by simp; omega
          rw [e]; exact k2
        · refine PopSteps.cons _ _ _ _ _ _ hpp ?_
          simpa using k5

/-- **An ingestion that pauses, from a clean state**: the paused state is `PausedAt'` the anchor
    of a state satisfying the full invariant for the extended ghost. -/
theorem ingest_paused_all (bound : Unstable.BoundFn) {s : State} {G : List Block} (budget : Nat)
    {sp : State} (hA : InvAll s G) (h : s.ingestStable bound budget = .paused sp) :
    ∃ sk A B', InvAll sk (G ++ poppedAnchors s sp) ∧
      PausedAt' sk sp (G ++ poppedAnchors s sp) A B' := by
  rw [Props.C08.ingestStable_eq_loop bound s G budget hA.invU.inv] at h
  have hN : NextInvAt s.unstable G.length := by
    have := hA.next; unfold NextInv at this; rwa [hA.invU.inv.heightEq] at this
  obtain ⟨popped, sk, A, B', k1, k2, k3, k4, k5⟩ :=
    ingestNewStable_paused_all bound _ s G budget false sp hA.invU hN hA.headers h
  have hun : sp.unstable = sk.unstable := k4.base.unstable
  have hpa : poppedAnchors s sp = popped := by
    rw [poppedAnchors_congr_right s hun]
    exact poppedAnchors_of_popSteps hA.invU.inv k5
  rw [hpa]
  refine ⟨sk, A, B', ⟨k1, ?_, k3⟩, k4⟩
  unfold NextInv
  rw [k1.inv.heightEq, List.length_append]
  exact k2

/-- **A completed ingestion, from a clean state** -/
theorem ingest_done_all (bound : Unstable.BoundFn) {s : State} {G : List Block} (budget : Nat)
    {s' : State} {w : Bool} (hA : InvAll s G) (h : s.ingestStable bound budget = .done s' w) :
    InvAll s' (G ++ poppedAnchors s s') :=
  step_preserves_invAll bound s G (.ingest budget) s' _ hA trivial (by simp [step, h])

end Btc.Lemmas.Reach2
