import BtcModel.Lemmas.LedgerDecomp
import BtcModel.Lemmas.Levels

/-!
  From the invariant to the query endpoints: container lemmas (`sortBy`, `multiIter`, `dedup`,
  byte-string order), the stable readers under `StableIs`, the unstable caches under
  `CachesExact`, and root paths of the block tree.
-/
namespace Btc
open Btc.Spec

instance : LawfulBEq Utxo where
  eq_of_beq {a b} h := by
    cases a; cases b
    simp only [BEq.beq] at h
    unfold instBEqUtxo.beq at h
    simp at h
    simp [h]
  rfl {a} := by
    cases a
    simp only [BEq.beq]
    unfold instBEqUtxo.beq
    simp

/-! ### `insertBy`, `sortBy`, `multiIter`, `dedup` -/

section Containers
variable {α : Type}

theorem insertBy_perm (lt : α → α → Bool) (x : α) (l : List α) : (insertBy lt x l).Perm (x :: l) := by
  induction l with
  | nil => exact List.Perm.refl _
  | cons y ys ih =>
    simp only [insertBy]
    split
    · exact List.Perm.refl _
    · exact (List.Perm.cons y ih).trans (List.Perm.swap x y ys)

theorem sortBy_perm (lt : α → α → Bool) (l : List α) : (sortBy lt l).Perm l := by
  induction l with
  | nil => exact List.Perm.refl _
  | cons x xs ih =>
    simp only [sortBy, List.foldr_cons]
    exact (insertBy_perm lt x _).trans (List.Perm.cons x ih)

theorem multiIter_nil_left (lt : α → α → Bool) (bs : List α) : multiIter lt [] bs = bs := by
  simp [multiIter]

theorem multiIter_cons (lt : α → α → Bool) (a : α) (as bs : List α) :
    multiIter lt (a :: as) bs = multiIter.aux lt a as bs := by simp [multiIter]

theorem multiIter_aux_nil (lt : α → α → Bool) (a : α) (as : List α) :
    multiIter.aux lt a as [] = a :: as := by simp [multiIter.aux]

theorem multiIter_aux_cons (lt : α → α → Bool) (a b : α) (as bs : List α) :
    multiIter.aux lt a as (b :: bs) =
      if lt a b then a :: multiIter lt as (b :: bs) else b :: multiIter.aux lt a as bs := by
  simp [multiIter.aux]

theorem multiIter_nil_right (lt : α → α → Bool) (xs : List α) : multiIter lt xs [] = xs := by
  cases xs with
  | nil => exact multiIter_nil_left lt []
  | cons a as => rw [multiIter_cons, multiIter_aux_nil]

theorem multiIter_perm (lt : α → α → Bool) (xs ys : List α) :
    (multiIter lt xs ys).Perm (xs ++ ys) := by
  induction xs generalizing ys with
  | nil => rw [multiIter_nil_left]; exact List.Perm.refl _
  | cons a as ih =>
    rw [multiIter_cons]
    induction ys with
    | nil => rw [multiIter_aux_nil]; simp
    | cons b bs ihb =>
      rw [multiIter_aux_cons]
      split
      · exact List.Perm.cons a (ih (b :: bs))
      · exact (List.Perm.cons b ihb).trans (List.perm_middle (l₁ := a :: as)).symm

/-- when no element of the first sequence is smaller than an element of the second, the merge is
    the second sequence followed by the first -/
theorem multiIter_eq_append (lt : α → α → Bool) (xs ys : List α)
    (h : ∀ x ∈ xs, ∀ y ∈ ys, lt x y = false) : multiIter lt xs ys = ys ++ xs := by
  cases xs with
  | nil => rw [multiIter_nil_left]; simp
  | cons a as =>
    rw [multiIter_cons]
    induction ys with
    | nil => rw [multiIter_aux_nil]; simp
    | cons b bs ihb =>
      rw [multiIter_aux_cons, h a List.mem_cons_self b List.mem_cons_self]
      simp only [Bool.false_eq_true, if_false, List.cons_append]
      rw [ihb (fun x hx y hy => h x hx y (List.mem_cons_of_mem _ hy))]

theorem dedup_of_nodup [BEq α] [LawfulBEq α] (l : List α) (h : l.Nodup) : dedup l = l := by
  induction l with
  | nil => rfl
  | cons x xs ih =>
    rw [List.nodup_cons] at h
    simp only [dedup, ih h.2]
    congr 1
    rw [List.filter_eq_self]
    intro y hy
    have : y ≠ x := fun e => h.1 (e ▸ hy)
    simp [this]

end Containers

/-! ### sums of values -/

def sumNat (l : List Nat) : Nat := l.foldl (· + ·) 0

/-- total value of a list of UTXOs -/
def totalValue (l : List Utxo) : Nat := sumNat (l.map (·.value))

theorem sumNat_eq_sum (l : List Nat) : sumNat l = l.sum := by
  unfold sumNat
  rw [List.sum_eq_foldl]

theorem sumNat_perm {l1 l2 : List Nat} (h : l1.Perm l2) : sumNat l1 = sumNat l2 := by
  rw [sumNat_eq_sum, sumNat_eq_sum]; exact h.sum_nat

theorem totalValue_perm {l1 l2 : List Utxo} (h : l1.Perm l2) : totalValue l1 = totalValue l2 :=
  sumNat_perm (h.map _)

theorem sumNat_append (l1 l2 : List Nat) : sumNat (l1 ++ l2) = sumNat l1 + sumNat l2 := by
  simp [sumNat_eq_sum]

theorem totalValue_append (l1 l2 : List Utxo) : totalValue (l1 ++ l2) = totalValue l1 + totalValue l2 := by
  simp [totalValue, sumNat_append]

/-! ### byte strings -/

theorem lexLt_append_left (a x y : List Nat) : lexLt (a ++ x) (a ++ y) = lexLt x y := by
  induction a with
  | nil => rfl
  | cons c cs ih => simp [lexLt, ih]

theorem lexLe_append_left (a x y : List Nat) : lexLe (a ++ x) (a ++ y) = lexLe x y := by
  unfold lexLe; rw [lexLt_append_left]

theorem beBytes_length (n x : Nat) : (beBytes n x).length = n := by
  induction n generalizing x with
  | zero => rfl
  | succ n ih => simp [beBytes, ih]

theorem leBytes_length (n x : Nat) : (leBytes n x).length = n := by
  induction n generalizing x with
  | zero => rfl
  | succ n ih => simp [leBytes, ih]

theorem beBytes_lt (n x : Nat) : ∀ b ∈ beBytes n x, b < 256 := by
  induction n generalizing x with
  | zero => simp [beBytes]
  | succ n ih =>
    intro b hb
    simp only [beBytes, List.mem_append, List.mem_singleton] at hb
    rcases hb with hb | rfl
    · exact ih _ b hb
    · omega

theorem leBytes_lt (n x : Nat) : ∀ b ∈ leBytes n x, b < 256 := by
  induction n generalizing x with
  | zero => simp [leBytes]
  | succ n ih =>
    intro b hb
    simp only [leBytes, List.mem_cons] at hb
    rcases hb with rfl | hb
    · omega
    · exact ih _ b hb

/-- the 40 bytes after the address in an index key -/
def keyTail (h : Nat) (o : OutPoint) : List Nat := heightBytes h ++ outPointBytes o

theorem key_eq (e : IdxEntry) : e.key = e.addr ++ keyTail e.height e.op := by
  simp [IdxEntry.key, keyTail]

theorem keyTail_length (h : Nat) (o : OutPoint) : (keyTail h o).length = 40 := by
  simp [keyTail, heightBytes, outPointBytes, beBytes_length, leBytes_length]

theorem keyTail_le (h : Nat) (o : OutPoint) : ∀ b ∈ keyTail h o, b ≤ 255 := by
  intro b hb
  simp only [keyTail, heightBytes, outPointBytes, List.mem_append, List.mem_map] at hb
  rcases hb with ⟨c, _, rfl⟩ | hb | hb
  · omega
  · have := beBytes_lt _ _ b hb; omega
  · have := leBytes_lt _ _ b hb; omega

theorem lexLt_zeros (x : List Nat) : lexLt x (List.replicate x.length 0) = false := by
  induction x with
  | nil => rfl
  | cons c cs ih => simp [List.replicate_succ, lexLt, ih]

theorem lexLt_max (x : List Nat) (hx : ∀ b ∈ x, b ≤ 255) :
    lexLt (List.replicate x.length 255) x = false := by
  induction x with
  | nil => rfl
  | cons c cs ih =>
    have hc : c ≤ 255 := hx c List.mem_cons_self
    have := ih (fun b hb => hx b (List.mem_cons_of_mem _ hb))
    simp only [List.length_cons, List.replicate_succ, lexLt, this]
    simp; omega

theorem keyTail_lo : keyTail (2 ^ 32 - 1) ⟨0, 0⟩ = List.replicate 40 0 := by decide
theorem keyTail_hi : keyTail 0 ⟨2 ^ 256 - 1, 2 ^ 32 - 1⟩ = List.replicate 40 255 := by decide

/-! ### the stable readers (item 2) -/

namespace UtxoSet

theorem rangeStart_none (a : Addr) : rangeStart a none = a ++ List.replicate 40 0 := by
  simp only [rangeStart, key_eq, keyTail_lo]

theorem rangeEnd_eq (a : Addr) : rangeEnd a = a ++ List.replicate 40 255 := by
  simp only [rangeEnd, key_eq, keyTail_hi]

/-- **Key fact of the range scan**: every index entry of address `a` lies within the scanned byte
    range (whatever its height and outpoint are). -/
theorem inRange_of_addr (a : Addr) (e : IdxEntry) (h : e.addr = a) :
    (lexLe (rangeStart a none) e.key && lexLe e.key (rangeEnd a)) = true := by
  rw [rangeStart_none, rangeEnd_eq, key_eq, h, lexLe_append_left, lexLe_append_left]
  have hlen := keyTail_length e.height e.op
  have h1 := lexLt_zeros (keyTail e.height e.op)
  have h2 := lexLt_max (keyTail e.height e.op) (keyTail_le _ _)
  rw [hlen] at h1 h2
  unfold lexLe
  rw [h1, h2]; rfl

theorem rangeScan_filter_perm (u : UtxoSet) (a : Addr) :
    ((u.rangeScan a none).filter (fun e => e.addr == a)).Perm (u.index.filter (fun e => e.addr == a)) := by
  unfold rangeScan
  refine ((sortBy_perm _ _).filter _).trans ?_
  rw [List.filter_filter]
  apply List.Perm.of_eq
  apply List.filter_congr
  intro e _
  by_cases h : e.addr = a
  · simp [h, inRange_of_addr a e h]
  · simp [h]

theorem getAddressOutpoints_notIngesting (u : UtxoSet) (a : Addr) (off : Option Utxo)
    (h : u.ingesting = none) :
    u.getAddressOutpoints a off = ((u.rangeScan a off).filter (fun e => e.addr == a)).map (·.op) := by
  unfold getAddressOutpoints
  simp only [h, multiIter_nil_right]
  rw [List.filter_eq_self]
  intro o _
  simp

theorem getUtxo_notIngesting (u : UtxoSet) (o : OutPoint) (h : u.ingesting = none) :
    u.getUtxo o = AList.find? u.utxos o := by
  unfold getUtxo; simp [h]

theorem getBalance_notIngesting (u : UtxoSet) (a : Addr) (h : u.ingesting = none) :
    u.getBalance a = some ((AList.find? u.balances a).getD 0) := by
  unfold getBalance; simp [h]

end UtxoSet

/-- the per-address view of a ledger map -/
def lfor (a : Addr) (l : LedgerMap) : List Utxo := l.filterMap (toUtxo? a)

theorem ledgerFor_eq_lfor (a : Addr) (chain : List Block) : ledgerFor a chain = lfor a (ledger chain) := rfl

theorem mem_lfor (a : Addr) (l : LedgerMap) (u : Utxo) :
    u ∈ lfor a l ↔ ∃ t, (u.outpoint, (t, u.height)) ∈ l ∧ t.addr = some a ∧ t.value = u.value := by
  unfold lfor
  rw [List.mem_filterMap]
  constructor
  · rintro ⟨e, he, hu⟩
    obtain ⟨ha, rfl⟩ := toUtxo?_some a e u hu
    exact ⟨e.2.1, he, ha, rfl⟩
  · rintro ⟨t, he, ha, hv⟩
    refine ⟨_, he, ?_⟩
    cases u
    simp_all [toUtxo?]

theorem lfor_outpoints_nodup (a : Addr) (l : LedgerMap) (hl : (l.map (·.1)).Nodup) :
    ((lfor a l).map (·.outpoint)).Nodup := by
  unfold lfor
  unfold List.Nodup at *
  rw [List.pairwise_map] at hl ⊢
  rw [List.pairwise_filterMap]
  refine hl.imp ?_
  intro e e' hne u hu' u' hu''
  obtain ⟨_, rfl⟩ := toUtxo?_some a e u hu'
  obtain ⟨_, rfl⟩ := toUtxo?_some a e' u' hu''
  exact hne

theorem find?_of_mem_lfor (a : Addr) (l : LedgerMap) (hl : (l.map (·.1)).Nodup) (u : Utxo)
    (hu : u ∈ lfor a l) : ∃ t, AList.find? l u.outpoint = some (t, u.height) ∧ t.value = u.value ∧
      t.addr = some a := by
  obtain ⟨t, hm, ha, hv⟩ := (mem_lfor a l u).mp hu
  exact ⟨t, AList.find?_of_mem l hl _ _ hm, hv, ha⟩

/-- index entry of a UTXO of address `a` -/
def idxOf (a : Addr) (u : Utxo) : IdxEntry := ⟨a, u.height, u.outpoint⟩

/-- under `StableIs`, the index entries of address `a` are exactly the ledger's UTXOs of `a` -/
theorem index_filter_perm (u : UtxoSet) (l : LedgerMap) (hs : StableIs u l)
    (hl : (l.map (·.1)).Nodup) (a : Addr) :
    (u.index.filter (fun e => e.addr == a)).Perm ((lfor a l).map (idxOf a)) := by
  rw [List.perm_ext_iff_of_nodup (hs.indexNodup.sublist List.filter_sublist)]
  · intro e
    rw [List.mem_filter, hs.indexEq, List.mem_map]
    constructor
    · rintro ⟨⟨t, hf, ha⟩, hea⟩
      simp only [beq_iff_eq] at hea
      refine ⟨⟨e.height, e.op, t.value⟩, (mem_lfor a l _).mpr ⟨t, AList.mem_of_find? l _ _ hf, ?_, rfl⟩, ?_⟩
      · rw [ha, hea]
      · cases e; simp_all [idxOf]
    · rintro ⟨x, hx, rfl⟩
      obtain ⟨t, hf, _, ha⟩ := find?_of_mem_lfor a l hl x hx
      exact ⟨⟨t, hf, ha⟩, by simp [idxOf]⟩
  · have := lfor_outpoints_nodup a l hl
    unfold List.Nodup at *
    rw [List.pairwise_map] at this ⊢
    refine this.imp ?_
    intro x y hne heq
    apply hne
    simp only [idxOf, IdxEntry.mk.injEq] at heq
    exact heq.2.2

/-- **Stable reader `get_address_outpoints`** (Perm part): without offset it returns exactly the
    outpoints of the ledger's UTXOs of `a` — nothing of any other address. -/
theorem getAddressOutpoints_perm (u : UtxoSet) (l : LedgerMap) (hs : StableIs u l)
    (hl : (l.map (·.1)).Nodup) (a : Addr) :
    (u.getAddressOutpoints a none).Perm ((lfor a l).map (·.outpoint)) := by
  rw [UtxoSet.getAddressOutpoints_notIngesting u a none hs.notIngesting]
  have h1 := (UtxoSet.rangeScan_filter_perm u a).trans (index_filter_perm u l hs hl a)
  have h2 := h1.map (·.op)
  rw [List.map_map] at h2
  exact h2

theorem getUtxo_stable (u : UtxoSet) (l : LedgerMap) (hs : StableIs u l) (o : OutPoint) :
    u.getUtxo o = AList.find? l o := by
  rw [UtxoSet.getUtxo_notIngesting u o hs.notIngesting, hs.utxosEq]

theorem lfor_values (a : Addr) (l : LedgerMap) :
    (l.filter (fun e => e.2.1.addr == some a)).map (fun e => e.2.1.value) = (lfor a l).map (·.value) := by
  unfold lfor
  induction l with
  | nil => rfl
  | cons e es ih =>
    by_cases h : e.2.1.addr = some a
    · simp [toUtxo?, h, ih]
    · simp [toUtxo?, h, ih]

/-- **Stable reader `get_balance`**: the sum of the values of the ledger's UTXOs of `a`. -/
theorem getBalance_stable (u : UtxoSet) (l : LedgerMap) (hs : StableIs u l) (a : Addr) :
    u.getBalance a = some (totalValue (lfor a l)) := by
  rw [UtxoSet.getBalance_notIngesting u a hs.notIngesting, hs.balancesEq, lfor_values]
  rfl

/-! ### root paths of the block tree -/

section TreeLemmas
open Btc.Tree
variable {α : Type}

mutual
theorem chainWithTip_spec (h : α → Nat) (tip : Nat) : ∀ (t : Tree α) (p s : List α),
    chainWithTip h tip t = some (p, s) →
      (∀ x ∈ p, x ∈ t.blocks) ∧ ∃ x, p.getLast? = some x ∧ h x = tip
  | .node r cs, p, s, hc => by
    simp only [chainWithTip] at hc
    split at hc
    · rename_i hr
      simp only [Option.some.injEq, Prod.mk.injEq] at hc
      obtain ⟨rfl, _⟩ := hc
      exact ⟨by simp [blocks], r, rfl, hr⟩
    · split at hc
      · rename_i q s' hq
        simp only [Option.some.injEq, Prod.mk.injEq] at hc
        obtain ⟨rfl, _⟩ := hc
        obtain ⟨h1, x, h2, h3⟩ := chainWithTipList_spec h tip cs q s' hq
        refine ⟨?_, x, ?_, h3⟩
        · intro y hy
          rcases List.mem_cons.mp hy with rfl | hy
          · simp [blocks]
          · simp only [blocks, List.mem_cons]; exact Or.inr (h1 y hy)
        · cases q with
          | nil => simp at h2
          | cons a as => simpa using h2
      · simp at hc
theorem chainWithTipList_spec (h : α → Nat) (tip : Nat) : ∀ (cs : List (Tree α)) (p s : List α),
    chainWithTipList h tip cs = some (p, s) →
      (∀ x ∈ p, x ∈ blocksList cs) ∧ ∃ x, p.getLast? = some x ∧ h x = tip
  | [], p, s, hc => by simp [chainWithTipList] at hc
  | c :: cs, p, s, hc => by
    simp only [chainWithTipList] at hc
    split at hc
    · rename_i x hx
      simp only [Option.some.injEq] at hc
      subst hc
      obtain ⟨h1, h2⟩ := chainWithTip_spec h tip c p s hx
      exact ⟨fun y hy => by simp only [blocksList, List.mem_append]; exact Or.inl (h1 y hy), h2⟩
    · obtain ⟨h1, h2⟩ := chainWithTipList_spec h tip cs p s hc
      exact ⟨fun y hy => by simp only [blocksList, List.mem_append]; exact Or.inr (h1 y hy), h2⟩
end

theorem chainWithTip_none_of_not_mem (h : α → Nat) (tip : Nat) (t : Tree α)
    (hn : tip ∉ t.blocks.map h) : chainWithTip h tip t = none := by
  cases hc : chainWithTip h tip t with
  | none => rfl
  | some ps =>
    obtain ⟨p, s⟩ := ps
    obtain ⟨h1, x, h2, h3⟩ := chainWithTip_spec h tip t p s hc
    exact absurd (List.mem_map.mpr ⟨x, h1 x (List.mem_of_getLast? h2), h3⟩) hn

mutual
theorem paths_mem_blocks : ∀ (t : Tree α), ∀ p ∈ paths t, ∀ y ∈ p, y ∈ t.blocks
  | .node r [], p, hp, y, hy => by
    simp [paths] at hp; subst hp; simp at hy; simp [blocks, hy]
  | .node r (c :: cs), p, hp, y, hy => by
    simp only [paths, List.mem_map] at hp
    obtain ⟨q, hq, rfl⟩ := hp
    rcases List.mem_cons.mp hy with rfl | hy
    · simp [blocks]
    · simp only [blocks, List.mem_cons]
      exact Or.inr (pathsList_mem_blocks (c :: cs) q hq y hy)
theorem pathsList_mem_blocks : ∀ (cs : List (Tree α)), ∀ p ∈ pathsList cs, ∀ y ∈ p, y ∈ blocksList cs
  | [], p, hp, y, hy => by simp [pathsList] at hp
  | c :: cs, p, hp, y, hy => by
    simp only [pathsList, List.mem_append] at hp
    simp only [blocksList, List.mem_append]
    rcases hp with hp | hp
    · exact Or.inl (paths_mem_blocks c p hp y hy)
    · exact Or.inr (pathsList_mem_blocks cs p hp y hy)
end

mutual
theorem chainWithTip_of_mem_paths (h : α → Nat) : ∀ (t : Tree α), (t.blocks.map h).Nodup →
    ∀ p ∈ paths t, ∀ x, p.getLast? = some x → ∃ s, chainWithTip h (h x) t = some (p, s)
  | .node r [], hnd, p, hp, x, hx => by
    simp [paths] at hp; subst hp
    simp at hx; subst hx
    exact ⟨rootsOf [], by simp [chainWithTip]⟩
  | .node r (c :: cs), hnd, p, hp, x, hx => by
    simp only [paths, List.mem_map] at hp
    obtain ⟨q, hq, rfl⟩ := hp
    have hqne : q ≠ [] := pathsList_all_ne_nil (c :: cs) q hq
    have hx' : q.getLast? = some x := by
      cases q with
      | nil => exact absurd rfl hqne
      | cons a as => simpa using hx
    simp only [blocks, List.map_cons, List.nodup_cons] at hnd
    have hxm : x ∈ blocksList (c :: cs) := pathsList_mem_blocks (c :: cs) q hq x (List.mem_of_getLast? hx')
    have hne : ¬ h r = h x := fun e => hnd.1 (e ▸ List.mem_map.mpr ⟨x, hxm, rfl⟩)
    obtain ⟨s, hs⟩ := chainWithTipList_of_mem_paths h (c :: cs) hnd.2 q hq x hx'
    exact ⟨s, by simp only [chainWithTip, hne, if_false, hs]⟩
theorem chainWithTipList_of_mem_paths (h : α → Nat) : ∀ (cs : List (Tree α)),
    ((blocksList cs).map h).Nodup →
    ∀ p ∈ pathsList cs, ∀ x, p.getLast? = some x → ∃ s, chainWithTipList h (h x) cs = some (p, s)
  | [], _, p, hp, x, hx => by simp [pathsList] at hp
  | c :: cs, hnd, p, hp, x, hx => by
    simp only [pathsList, List.mem_append] at hp
    simp only [blocksList, List.map_append, List.nodup_append] at hnd
    rcases hp with hp | hp
    · obtain ⟨s, hs⟩ := chainWithTip_of_mem_paths h c hnd.1 p hp x hx
      exact ⟨s, by simp only [chainWithTipList, hs]⟩
    · have hxm : x ∈ blocksList cs := pathsList_mem_blocks cs p hp x (List.mem_of_getLast? hx)
      have hnone : chainWithTip h (h x) c = none := by
        apply chainWithTip_none_of_not_mem
        intro hm
        exact hnd.2.2 _ hm _ (List.mem_map.mpr ⟨x, hxm, rfl⟩) rfl
      obtain ⟨s, hs⟩ := chainWithTipList_of_mem_paths h cs hnd.2.1 p hp x hx
      exact ⟨s, by simp only [chainWithTipList, hnone, hs]⟩
end

/-- **The main chain is a root path**: with pairwise distinct hashes, `get_chain_with_tip` of the
    main chain's last block returns the main chain. -/
theorem mainChain_rootPath (h d : α → Nat) (t : Tree α) (hnd : (t.blocks.map h).Nodup) :
    ∃ x s, (mainChain d t).getLast? = some x ∧ chainWithTip h (h x) t = some (mainChain d t, s) := by
  have hmb : mainChain d t = bestPath d t := by
    unfold mainChain; rw [mainChainInner_eq]; rfl
  rw [hmb]
  have hm := bestPath_mem_paths d t
  have hne : bestPath d t ≠ [] := paths_all_ne_nil t _ hm
  cases hl : (bestPath d t).getLast? with
  | none => simp [List.getLast?_eq_none_iff] at hl; exact absurd hl hne
  | some x =>
    obtain ⟨s, hs⟩ := chainWithTip_of_mem_paths h t hnd _ hm x hl
    exact ⟨x, s, rfl, hs⟩

end TreeLemmas

/-! ### the unstable caches (item 3) -/

theorem mem_blockRefs_output (b : Block) (tx : Tx) (htx : tx ∈ b.txs) (v : Nat) (hv : v < tx.outs.length) :
    (⟨tx.txid, v⟩ : OutPoint) ∈ blockRefs b := by
  unfold blockRefs
  rw [List.mem_flatMap]
  refine ⟨tx, htx, List.mem_append_right _ ?_⟩
  exact List.mem_map.mpr ⟨v, List.mem_range.mpr hv, rfl⟩

theorem mem_blockRefs_input (b : Block) (tx : Tx) (htx : tx ∈ b.txs) (o : OutPoint) (ho : o ∈ tx.ins) :
    o ∈ blockRefs b := by
  unfold blockRefs
  rw [List.mem_flatMap]
  exact ⟨tx, htx, List.mem_append_left _ ho⟩

/-- a referenced outpoint has a cache entry holding its true output -/
theorem getTxOut_of_ref (u : Unstable) (hist : List Block) (hce : CachesExact u hist)
    (b : CBlock) (hb : b ∈ u.tree.blocks) (o : OutPoint) (ho : o ∈ blockRefs b.blk) :
    ∃ info, AList.find? u.cache.txOuts o = some info ∧ outAt hist o = some info.txout := by
  have hpos : 0 < refCount u.tree o := by
    unfold refCount
    rw [List.count_pos_iff, List.mem_flatMap]
    exact ⟨b, hb, ho⟩
  have := hce.txOuts o
  cases hf : AList.find? u.cache.txOuts o with
  | none => rw [hf] at this; simp only at this; omega
  | some info => rw [hf] at this; exact ⟨info, rfl, this.2.2⟩

theorem addedHere_eq (u : Unstable) (hist : List Block) (hce : CachesExact u hist)
    (hc : TxidsConsistent hist) (b : CBlock) (hb : b ∈ u.tree.blocks) (hbh : b.blk ∈ hist)
    (a : Addr) (h : Nat) :
    (u.cache.getAdded b.hash a).map (fun o =>
        (u.cache.getTxOut o).map (fun p => Utxo.mk h o p.1.value)) =
      (addedUtxos a h b.blk).map some := by
  rw [hce.added b hb a, ← addedUtxos_outpoints a h b.blk, List.map_map]
  apply List.map_congr_left
  intro x hx
  have hx' : x ∈ addedAll a h [b.blk] := by simpa [addedAll] using hx
  obtain ⟨i, b', tx, v, t, hb', htx, hvt, ha, rfl⟩ := (mem_addedAll a h [b.blk] x).mp hx'
  have hi : i = 0 ∧ b' = b.blk := by
    cases i with
    | zero => simp at hb'; exact ⟨rfl, hb'.symm⟩
    | succ i => simp at hb'
  obtain ⟨rfl, rfl⟩ := hi
  have hvlt : v < tx.outs.length := (List.getElem?_eq_some_iff.mp hvt).1
  obtain ⟨info, hf, ho⟩ := getTxOut_of_ref u hist hce b hb _ (mem_blockRefs_output b.blk tx htx v hvlt)
  have htxh : tx ∈ txsOf hist := (mem_txsOf _ _).mpr ⟨b.blk, hbh, htx⟩
  rw [outAt_of_mem hist hc tx htxh v, hvt] at ho
  simp only [Option.some.injEq] at ho
  simp [OutPointsCache.getTxOut, hf, ← ho]

/-- **Item 3**: over blocks of the tree, `apply_block` accumulates exactly `A` (`addedAll`) and
    `R` (`removedAll`). -/
theorem applyBlocks_spec (s : State) (hist : List Block) (hce : CachesExact s.unstable hist)
    (hc : TxidsConsistent hist) (hh : ∀ b ∈ s.unstable.tree.blocks, b.blk ∈ hist) (a : Addr)
    (bs : List CBlock) (hbs : ∀ b ∈ bs, b ∈ s.unstable.tree.blocks) (h : Nat) (A0 : List Utxo)
    (R0 : List OutPoint) :
    State.applyBlocks s a bs h (A0, R0) =
      some (A0 ++ addedAll a h (bs.map (·.blk)), R0 ++ removedAll hist a (bs.map (·.blk))) := by
  induction bs generalizing h A0 R0 with
  | nil => simp [State.applyBlocks, addedAll, removedAll]
  | cons b bs ih =>
    have hb := hbs b List.mem_cons_self
    have hadd := addedHere_eq s.unstable hist hce hc b hb (hh b hb) a h
    simp only [State.applyBlocks, hadd]
    have h1 : ((addedUtxos a h b.blk).map some).any Option.isNone = false := by
      simp [List.any_eq_false]
    have h2 : ((addedUtxos a h b.blk).map some).filterMap id = addedUtxos a h b.blk := by
      simp [List.filterMap_map]
    rw [h1, h2]
    simp only [Bool.false_eq_true, if_false]
    rw [ih (fun x hx => hbs x (List.mem_cons_of_mem _ hx)), hce.removed b hb a]
    simp [addedAll, removedAll, List.append_assoc]

/-! ### `AddressUtxoSet::into_iter` -/

/-- the stable part of the iterator: the stable outpoints of `a` not in `R`, as UTXOs -/
def stablePart (s : State) (a : Addr) (R : List OutPoint) : List Utxo :=
  ((s.utxos.getAddressOutpoints a none).filter (fun o => !(R.contains o))).filterMap
    (fun o => (s.utxos.getUtxo o).map (fun p => Utxo.mk p.2 o p.1.value))

/-- the unstable part: the added UTXOs not in `R`, in `Utxo` order -/
def unstablePart (A : List Utxo) (R : List OutPoint) : List Utxo :=
  (sortBy Utxo.lt (dedup A)).filter (fun u => !(R.contains u.outpoint))

theorem getUtxo_of_mem_lfor (s : State) (l : LedgerMap) (hs : StableIs s.utxos l)
    (hl : (l.map (·.1)).Nodup) (a : Addr) (u : Utxo) (hu : u ∈ lfor a l) :
    (s.utxos.getUtxo u.outpoint).map (fun p => Utxo.mk p.2 u.outpoint p.1.value) = some u := by
  obtain ⟨t, hf, hv, _⟩ := find?_of_mem_lfor a l hl u hu
  rw [getUtxo_stable s.utxos l hs, hf]
  cases u; simp_all

theorem addressUtxos_eq (s : State) (l : LedgerMap) (hs : StableIs s.utxos l)
    (hl : (l.map (·.1)).Nodup) (a : Addr) (A : List Utxo) (R : List OutPoint) :
    State.addressUtxos s a A R none =
      some (multiIter Utxo.lt (stablePart s a R) (unstablePart A R)) := by
  unfold State.addressUtxos stablePart unstablePart
  have hany : (((s.utxos.getAddressOutpoints a none).filter (fun o => !(R.contains o))).map
      (fun o => (s.utxos.getUtxo o).map (fun p => Utxo.mk p.2 o p.1.value))).any Option.isNone = false := by
    rw [List.any_eq_false]
    intro x hx
    obtain ⟨o, ho, rfl⟩ := List.mem_map.mp hx
    have ho' := (List.mem_filter.mp ho).1
    have := (getAddressOutpoints_perm s.utxos l hs hl a).mem_iff.mp ho'
    obtain ⟨u, hu, rfl⟩ := List.mem_map.mp this
    rw [getUtxo_of_mem_lfor s l hs hl a u hu]
    simp
  simp only [hany, Bool.false_eq_true, if_false, List.filterMap_map, Function.comp_def, id]
  congr 2
  rw [List.filter_eq_self]
  intro _ _; rfl

theorem stablePart_perm (s : State) (l : LedgerMap) (hs : StableIs s.utxos l)
    (hl : (l.map (·.1)).Nodup) (a : Addr) (R : List OutPoint) :
    (stablePart s a R).Perm ((lfor a l).filter (fun u => !(R.contains u.outpoint))) := by
  unfold stablePart
  have h1 := ((getAddressOutpoints_perm s.utxos l hs hl a).filter (fun o => !(R.contains o))).filterMap
    (fun o => (s.utxos.getUtxo o).map (fun p => Utxo.mk p.2 o p.1.value))
  refine h1.trans (List.Perm.of_eq ?_)
  rw [List.filter_map, List.filterMap_map]
  have : ((lfor a l).filter ((fun o => !(R.contains o)) ∘ fun x => x.outpoint)).filterMap
      ((fun o => (s.utxos.getUtxo o).map (fun p => Utxo.mk p.2 o p.1.value)) ∘ fun x => x.outpoint) =
      ((lfor a l).filter ((fun o => !(R.contains o)) ∘ fun x => x.outpoint)).filterMap some := by
    apply filterMap_congr'
    intro u hu
    exact getUtxo_of_mem_lfor s l hs hl a u (List.mem_filter.mp hu).1
  rw [this, List.filterMap_some]
  rfl

theorem unstablePart_perm (A : List Utxo) (R : List OutPoint) (hA : A.Nodup) :
    (unstablePart A R).Perm (A.filter (fun u => !(R.contains u.outpoint))) := by
  unfold unstablePart
  rw [dedup_of_nodup A hA]
  exact (sortBy_perm _ _).filter _

theorem addedAll_outpoints_nodup (a : Addr) (h0 : Nat) (p : List Block) (hwf : ∀ b ∈ p, BlockWF b)
    (hu : TxidsUnique p) : ((addedAll a h0 p).map (·.outpoint)).Nodup := by
  rw [← createdF_filterMap a h0 p hwf]
  have h := createdF_keys_nodup (flat h0 p) (by rw [flat_txids]; exact hu)
  unfold List.Nodup at *
  rw [List.pairwise_map] at h ⊢
  rw [List.pairwise_filterMap]
  refine h.imp ?_
  intro e e' hne u hu' u' hu''
  obtain ⟨_, rfl⟩ := toUtxo?_some a e u hu'
  obtain ⟨_, rfl⟩ := toUtxo?_some a e' u' hu''
  exact hne

theorem nodup_of_map_nodup {α β : Type} (f : α → β) (l : List α) (h : (l.map f).Nodup) : l.Nodup := by
  unfold List.Nodup at *
  rw [List.pairwise_map] at h
  exact h.imp (fun hne heq => hne (by rw [heq]))

/-! ### prefixes of root paths under the invariant -/

/-- where outpoints are resolved: the stable chain and all blocks of the tree -/
def histOf (s : State) (G : List Block) : List Block := G ++ s.unstable.tree.blocks.map (·.blk)

/-- What the query proofs need to know about the applied blocks `applied` (a prefix of a root path
    of the tree): the chain `G ++ applied` is transaction valid, **its transaction ids are pairwise
    distinct** (the extra hypothesis, see `Spec.TxidsUnique`), and the blocks are in the tree. -/
structure PathCtx (s : State) (G : List Block) (applied : List CBlock) : Prop where
  valid : TxValid (G ++ applied.map (·.blk))
  unique : TxidsUnique (G ++ applied.map (·.blk))
  inTree : ∀ b ∈ applied, b ∈ s.unstable.tree.blocks

theorem PathCtx.prefix {s : State} {G : List Block} {xs ys : List CBlock}
    (h : PathCtx s G (xs ++ ys)) : PathCtx s G xs := by
  obtain ⟨h1, h2, h3⟩ := h
  rw [List.map_append] at h1 h2
  refine ⟨?_, TxidsUnique_prefix _ _ _ h2, fun b hb => h3 b (List.mem_append_left _ hb)⟩
  rw [← List.append_assoc] at h1
  exact TxValid_prefix _ _ h1

/-- a prefix of a root path satisfies `PathCtx`, given the invariant and unique transaction ids -/
theorem PathCtx.of_rootPath {s : State} {G : List Block} (hinv : Inv s G) (tip : Nat)
    (chainC sib : List CBlock)
    (hroot : Tree.chainWithTip CBlock.hash tip s.unstable.tree = some (chainC, sib))
    (hU : TxidsUnique (G ++ chainC.map (·.blk)))
    (applied rest : List CBlock) (happ : chainC = applied ++ rest) : PathCtx s G applied := by
  subst happ
  apply PathCtx.prefix (ys := rest)
  refine ⟨hinv.valid tip _ ?_, hU, (chainWithTip_spec CBlock.hash tip _ _ _ hroot).1⟩
  unfold pathBlocks
  rw [hroot]; rfl

theorem hist_consistent {s : State} {G : List Block} (hinv : Inv s G) : TxidsConsistent (histOf s G) :=
  hinv.txids

theorem PathCtx.sub_hist {s : State} {G : List Block} {applied : List CBlock}
    (hp : PathCtx s G applied) : ∀ b ∈ G ++ applied.map (·.blk), b ∈ histOf s G := by
  intro b hb
  unfold histOf
  rcases List.mem_append.mp hb with h | h
  · exact List.mem_append_left _ h
  · obtain ⟨c, hc, rfl⟩ := List.mem_map.mp h
    exact List.mem_append_right _ (List.mem_map.mpr ⟨c, hp.inTree c hc, rfl⟩)

theorem PathCtx.validG {s : State} {G : List Block} {applied : List CBlock}
    (hp : PathCtx s G applied) : TxValid G ∧ TxidsUnique G :=
  ⟨TxValid_prefix _ _ hp.valid, TxidsUnique_left _ _ hp.unique⟩

theorem PathCtx.blocksWF {s : State} {G : List Block} {applied : List CBlock}
    (hp : PathCtx s G applied) : ∀ b ∈ applied.map (·.blk), BlockWF b := by
  intro b hb
  exact TxValidFrom_blockWF _ _ _ hp.valid b (List.mem_append_right _ hb)

/-- the result list of `AddressUtxoSet::into_iter` for the blocks `applied` -/
def resultList (s : State) (G : List Block) (a : Addr) (applied : List CBlock) : List Utxo :=
  let p := applied.map (·.blk)
  let R := removedAll (histOf s G) a p
  multiIter Utxo.lt (stablePart s a R) (unstablePart (addedAll a G.length p) R)

/-- **Core of C01** (Perm part): for a prefix `applied` of a root path, the caches give `A`, `R`,
    the iterator does not panic, and it yields a permutation of the reference ledger of `a` at
    `G ++ applied`, each outpoint once. -/
theorem addressUtxos_path {s : State} {G : List Block} (hinv : Inv s G) {applied : List CBlock}
    (hp : PathCtx s G applied) (a : Addr) :
    State.applyBlocks s a applied s.utxos.nextHeight ([], []) =
      some (addedAll a G.length (applied.map (·.blk)),
            removedAll (histOf s G) a (applied.map (·.blk))) ∧
    State.addressUtxos s a (addedAll a G.length (applied.map (·.blk)))
      (removedAll (histOf s G) a (applied.map (·.blk))) none = some (resultList s G a applied) ∧
    (resultList s G a applied).Perm (ledgerFor a (G ++ applied.map (·.blk))) ∧
    ((resultList s G a applied).map (·.outpoint)).Nodup := by
  have hG := hp.validG
  have hkeys := ledger_keys_nodup G hG.1 hG.2
  have hcons := hist_consistent hinv
  have hA : (addedAll a G.length (applied.map (·.blk))).Nodup :=
    nodup_of_map_nodup _ _ (addedAll_outpoints_nodup a G.length _ hp.blocksWF
      (TxidsUnique_right _ _ hp.unique))
  have hperm : (resultList s G a applied).Perm (ledgerFor a (G ++ applied.map (·.blk))) := by
    rw [ledgerFor_decomp a G _ (histOf s G) hp.valid hp.unique hp.sub_hist hcons]
    unfold resultList
    refine (multiIter_perm _ _ _).trans (List.Perm.append ?_ ?_)
    · exact stablePart_perm s (ledger G) hinv.stable hkeys a _
    · exact unstablePart_perm _ _ hA
  refine ⟨?_, ?_, hperm, ?_⟩
  · have := applyBlocks_spec s (histOf s G) hinv.caches hcons
      (fun b hb => List.mem_append_right _ (List.mem_map.mpr ⟨b, hb, rfl⟩)) a applied hp.inTree
      s.utxos.nextHeight [] []
    rw [this, hinv.heightEq]; simp
  · exact addressUtxos_eq s (ledger G) hinv.stable hkeys a _ _
  · rw [(hperm.map (·.outpoint)).nodup_iff]
    exact ledgerFor_outpoints_nodup a _ hp.valid hp.unique

/-! ### ordering -/

theorem lexLt_cons (x y : Nat) (a b : List Nat) :
    lexLt (x :: a) (y :: b) = (decide (x < y) || (x == y && lexLt a b)) := rfl

theorem lexLt_asymm (a b : List Nat) (h : lexLt a b = true) : lexLt b a = false := by
  induction a generalizing b with
  | nil => cases b <;> simp [lexLt] at *
  | cons x a ih =>
    cases b with
    | nil => simp [lexLt] at h
    | cons y b =>
      rw [lexLt_cons] at h ⊢
      simp only [Bool.or_eq_true, decide_eq_true_eq, Bool.and_eq_true, beq_iff_eq] at h
      rcases h with h | ⟨rfl, h⟩
      · have h1 : ¬ y < x := by omega
        have h2 : ¬ y = x := by omega
        simp [h1, h2]
      · simp [ih b h]

theorem lexLe_trans (a b c : List Nat) (h1 : lexLt b a = false) (h2 : lexLt c b = false) :
    lexLt c a = false := by
  induction a generalizing b c with
  | nil => cases c <;> rfl
  | cons x a ih =>
    cases c with
    | nil =>
      cases b with
      | nil => simp [lexLt] at h1
      | cons y b => simp [lexLt] at h2
    | cons z c =>
      cases b with
      | nil => simp [lexLt] at h1
      | cons y b =>
        rw [lexLt_cons] at h1 h2 ⊢
        simp only [Bool.or_eq_false_iff, decide_eq_false_iff_not, Bool.and_eq_false_iff,
          beq_eq_false_iff_ne, ne_eq] at h1 h2 ⊢
        obtain ⟨h1a, h1b⟩ := h1
        obtain ⟨h2a, h2b⟩ := h2
        refine ⟨by omega, ?_⟩
        by_cases hzx : z = x
        · right
          have hyx : y = x := by omega
          have hzy : z = y := by omega
          rcases h1b with h | h
          · exact absurd hyx h
          · rcases h2b with h' | h'
            · exact absurd hzy h'
            · exact ih b c h h'
        · left; exact hzx

/-- insertion sort produces a list that is pairwise ordered w.r.t. any transitive relation `R`
    compatible with `lt` -/
theorem insertBy_pairwise {α : Type} (lt : α → α → Bool) (R : α → α → Prop)
    (htrans : ∀ x y z, R x y → R y z → R x z) (h1 : ∀ x y, lt x y = true → R x y)
    (h2 : ∀ x y, lt x y = false → R y x) (x : α) (l : List α) (hl : l.Pairwise R) :
    (insertBy lt x l).Pairwise R := by
  induction l with
  | nil => simp [insertBy]
  | cons y ys ih =>
    simp only [insertBy]
    rw [List.pairwise_cons] at hl
    split
    · rename_i hlt
      rw [List.pairwise_cons]
      refine ⟨?_, List.pairwise_cons.mpr hl⟩
      intro z hz
      rcases List.mem_cons.mp hz with rfl | hz
      · exact h1 _ _ hlt
      · exact htrans _ _ _ (h1 _ _ hlt) (hl.1 z hz)
    · rename_i hlt
      rw [List.pairwise_cons]
      refine ⟨?_, ih hl.2⟩
      intro z hz
      rcases List.mem_cons.mp ((insertBy_perm lt x ys).mem_iff.mp hz) with rfl | hz
      · exact h2 _ _ (by simpa using hlt)
      · exact hl.1 z hz

theorem sortBy_pairwise {α : Type} (lt : α → α → Bool) (R : α → α → Prop)
    (htrans : ∀ x y z, R x y → R y z → R x z) (h1 : ∀ x y, lt x y = true → R x y)
    (h2 : ∀ x y, lt x y = false → R y x) (l : List α) : (sortBy lt l).Pairwise R := by
  induction l with
  | nil => exact List.Pairwise.nil
  | cons x xs ih =>
    simp only [sortBy, List.foldr_cons]
    exact insertBy_pairwise lt R htrans h1 h2 x _ ih

theorem lexLt_append_of_lt (p1 p2 q1 q2 : List Nat) (hlen : p1.length = p2.length)
    (h : lexLt p1 p2 = true) : lexLt (p1 ++ q1) (p2 ++ q2) = true := by
  induction p1 generalizing p2 with
  | nil =>
    cases p2 with
    | nil => simp [lexLt] at h
    | cons y p2 => simp at hlen
  | cons x p1 ih =>
    cases p2 with
    | nil => simp at hlen
    | cons y p2 =>
      simp only [List.cons_append, lexLt_cons] at h ⊢
      simp only [Bool.or_eq_true, decide_eq_true_eq, Bool.and_eq_true, beq_iff_eq] at h ⊢
      rcases h with h | ⟨rfl, h⟩
      · exact Or.inl h
      · exact Or.inr ⟨rfl, ih p2 (by simpa using hlen) h⟩

theorem beBytes_lt_of_lt (n x y : Nat) (hy : y < 256 ^ n) (h : x < y) :
    lexLt (beBytes n x) (beBytes n y) = true := by
  induction n generalizing x y with
  | zero => simp at hy; omega
  | succ n ih =>
    simp only [beBytes]
    have hy' : y / 256 < 256 ^ n := by
      rw [Nat.pow_succ] at hy
      exact Nat.div_lt_of_lt_mul (by rw [Nat.mul_comm]; exact hy)
    by_cases hq : x / 256 < y / 256
    · exact lexLt_append_of_lt _ _ _ _ (by simp [beBytes_length]) (ih _ _ hy' hq)
    · have heq : x / 256 = y / 256 := by omega
      rw [heq, lexLt_append_left]
      simp [lexLt]; omega

theorem lexLt_map_compl (xs ys : List Nat) (hlen : xs.length = ys.length)
    (hx : ∀ b ∈ xs, b ≤ 255) (hy : ∀ b ∈ ys, b ≤ 255) :
    lexLt (xs.map (fun b => 255 - b)) (ys.map (fun b => 255 - b)) = lexLt ys xs := by
  induction xs generalizing ys with
  | nil =>
    cases ys with
    | nil => rfl
    | cons y ys => simp at hlen
  | cons x xs ih =>
    cases ys with
    | nil => simp at hlen
    | cons y ys =>
      have hx0 : x ≤ 255 := hx x List.mem_cons_self
      have hy0 : y ≤ 255 := hy y List.mem_cons_self
      simp only [List.map_cons, lexLt_cons]
      rw [ih ys (by simpa using hlen) (fun b hb => hx b (List.mem_cons_of_mem _ hb))
        (fun b hb => hy b (List.mem_cons_of_mem _ hb))]
      by_cases h1 : y < x
      · have : 255 - x < 255 - y := by omega
        simp [h1, this]
      · by_cases h2 : y = x
        · subst h2; simp
        · have h3 : ¬ 255 - x < 255 - y := by omega
          have h4 : (255 - x == 255 - y) = false := by simp; omega
          have h5 : (y == x) = false := by simp; omega
          simp [h1, h3, h4, h5]

/-- `heightBytes` reverses the order of heights below `2^32` -/
theorem heightBytes_lt_of_gt (h1 h2 : Nat) (hb : h2 < 2 ^ 32) (h : h1 < h2) :
    lexLt (heightBytes h2) (heightBytes h1) = true := by
  unfold heightBytes
  rw [lexLt_map_compl _ _ (by simp [beBytes_length])
    (fun b hb => by have := beBytes_lt _ _ b hb; omega)
    (fun b hb => by have := beBytes_lt _ _ b hb; omega)]
  exact beBytes_lt_of_lt 4 h1 h2 (by simpa using hb) h

/-- entries of the same address: key order implies height order (descending) -/
theorem height_ge_of_key_le (e1 e2 : IdxEntry) (ha : e1.addr = e2.addr) (hb : e2.height < 2 ^ 32)
    (h : lexLt e2.key e1.key = false) : e2.height ≤ e1.height := by
  rcases Nat.lt_or_ge e1.height e2.height with hlt | hge
  · exfalso
    have h3 := heightBytes_lt_of_gt e1.height e2.height hb hlt
    rw [key_eq, key_eq, ha, lexLt_append_left] at h
    unfold keyTail at h
    rw [lexLt_append_of_lt _ _ _ _ (by simp [heightBytes, beBytes_length]) h3] at h
    exact Bool.noConfusion h
  · exact hge

/-- the scanned index entries of address `a`, in key order -/
def scanEntries (u : UtxoSet) (a : Addr) : List IdxEntry :=
  (u.rangeScan a none).filter (fun e => e.addr == a)

theorem scanEntries_sorted (u : UtxoSet) (a : Addr) :
    (scanEntries u a).Pairwise (fun e1 e2 => lexLt e2.key e1.key = false) := by
  unfold scanEntries UtxoSet.rangeScan
  apply List.Pairwise.filter
  apply sortBy_pairwise (fun (x y : IdxEntry) => lexLt x.key y.key)
    (fun (e1 e2 : IdxEntry) => lexLt e2.key e1.key = false)
  · intro x y z h1 h2; exact lexLe_trans _ _ _ h1 h2
  · intro x y h; exact lexLt_asymm _ _ h
  · intro x y h; exact h

theorem scanEntries_mem (u : UtxoSet) (a : Addr) (e : IdxEntry) (he : e ∈ scanEntries u a) :
    e ∈ u.index ∧ e.addr = a := by
  unfold scanEntries UtxoSet.rangeScan at he
  rw [List.mem_filter] at he
  have := (sortBy_perm _ _).mem_iff.mp he.1
  exact ⟨(List.mem_filter.mp this).1, by simpa using he.2⟩

theorem stablePart_eq_entries (s : State) (a : Addr) (R : List OutPoint)
    (h : s.utxos.ingesting = none) :
    stablePart s a R = ((scanEntries s.utxos a).filter (fun e => !(R.contains e.op))).filterMap
      (fun e => (s.utxos.getUtxo e.op).map (fun p => Utxo.mk p.2 e.op p.1.value)) := by
  unfold stablePart scanEntries
  rw [UtxoSet.getAddressOutpoints_notIngesting _ _ _ h, List.filter_map, List.filterMap_map]
  rfl

/-- **Stable reader, ordering part**: the stable UTXOs are produced with non-increasing heights
    (needs the stored heights to fit in 4 bytes). -/
theorem stablePart_heights (s : State) (l : LedgerMap) (hs : StableIs s.utxos l) (a : Addr)
    (R : List OutPoint) (hb : ∀ e ∈ l, e.2.2 < 2 ^ 32) :
    (stablePart s a R).Pairwise (fun u1 u2 => u2.height ≤ u1.height) := by
  rw [stablePart_eq_entries s a R hs.notIngesting]
  have hsorted := ((scanEntries_sorted s.utxos a).filter (fun e => !(R.contains e.op)))
  rw [List.pairwise_filterMap]
  refine (List.Pairwise.and_mem.mp hsorted).imp ?_
  intro e1 e2 ⟨hm1, hm2, hle⟩ u1 hu1 u2 hu2
  have he1 := scanEntries_mem _ _ _ (List.mem_filter.mp hm1).1
  have he2 := scanEntries_mem _ _ _ (List.mem_filter.mp hm2).1
  obtain ⟨t1, hf1, _⟩ := (hs.indexEq e1).mp he1.1
  obtain ⟨t2, hf2, _⟩ := (hs.indexEq e2).mp he2.1
  rw [getUtxo_stable s.utxos l hs, hf1] at hu1
  rw [getUtxo_stable s.utxos l hs, hf2] at hu2
  simp only [Option.map_some, Option.some.injEq] at hu1 hu2
  subst hu1; subst hu2
  have hb2 : e2.height < 2 ^ 32 := hb _ (AList.mem_of_find? l _ _ hf2)
  exact height_ge_of_key_le e1 e2 (by rw [he1.2, he2.2]) hb2 hle

theorem unstablePart_heights (A : List Utxo) (R : List OutPoint) :
    (unstablePart A R).Pairwise (fun u1 u2 => u2.height ≤ u1.height) := by
  unfold unstablePart
  apply List.Pairwise.filter
  apply sortBy_pairwise Utxo.lt
  · intro x y z h1 h2; omega
  · intro x y h
    unfold Utxo.lt at h
    simp only [Bool.or_eq_true, decide_eq_true_eq, Bool.and_eq_true, beq_iff_eq] at h
    rcases h with h | ⟨h, _⟩ <;> omega
  · intro x y h
    unfold Utxo.lt at h
    simp only [Bool.or_eq_false_iff, decide_eq_false_iff_not] at h
    omega

theorem mem_unstablePart (A : List Utxo) (R : List OutPoint) (u : Utxo) (hu : u ∈ unstablePart A R) :
    u ∈ A := by
  unfold unstablePart at hu
  have h1 := (sortBy_perm _ _).mem_iff.mp (List.mem_filter.mp hu).1
  clear hu
  induction A with
  | nil => simp [dedup] at h1
  | cons x xs ih =>
    simp only [dedup, List.mem_cons] at h1
    rcases h1 with rfl | h1
    · exact List.mem_cons_self
    · exact List.mem_cons_of_mem _ (ih (List.mem_filter.mp h1).1)

theorem addedAll_height_ge (a : Addr) (h0 : Nat) (p : List Block) (u : Utxo) (hu : u ∈ addedAll a h0 p) :
    h0 ≤ u.height := by
  obtain ⟨i, b, tx, v, t, _, _, _, _, rfl⟩ := (mem_addedAll a h0 p u).mp hu
  simp

theorem ledger_heights_lt {s : State} {G : List Block} (hinv : Inv s G) {applied : List CBlock}
    (hp : PathCtx s G applied) : ∀ e ∈ ledger G, e.2.2 < G.length := by
  intro e he
  have hG := hp.validG
  exact (mem_ledger_outAt G (histOf s G) hG.1 hG.2
    (fun b hb => hp.sub_hist b (List.mem_append_left _ hb)) (hist_consistent hinv) e he).2

/-- **Ordering part of C01**: the iterator yields the unstable UTXOs (heights `≥ n`, in `Utxo`
    order) followed by the stable ones (heights `< n`, in index-key order); heights never increase
    along the list. Needs `G.length ≤ 2^32` (heights are stored in 4 bytes). -/
theorem resultList_heights {s : State} {G : List Block} (hinv : Inv s G) {applied : List CBlock}
    (hp : PathCtx s G applied) (a : Addr) (hH : G.length ≤ 2 ^ 32) :
    resultList s G a applied =
      unstablePart (addedAll a G.length (applied.map (·.blk)))
        (removedAll (histOf s G) a (applied.map (·.blk))) ++
      stablePart s a (removedAll (histOf s G) a (applied.map (·.blk))) ∧
    (resultList s G a applied).Pairwise (fun u1 u2 => u2.height ≤ u1.height) := by
  have hG := hp.validG
  have hkeys := ledger_keys_nodup G hG.1 hG.2
  have hlt := ledger_heights_lt hinv hp
  have hst : ∀ x ∈ stablePart s a (removedAll (histOf s G) a (applied.map (·.blk))), x.height < G.length := by
    intro x hx
    have h1 := (stablePart_perm s (ledger G) hinv.stable hkeys a _).mem_iff.mp hx
    have h2 := (List.mem_filter.mp h1).1
    obtain ⟨t, hm, _, _⟩ := (mem_lfor a (ledger G) x).mp h2
    exact hlt _ hm
  have hun : ∀ y ∈ unstablePart (addedAll a G.length (applied.map (·.blk)))
      (removedAll (histOf s G) a (applied.map (·.blk))), G.length ≤ y.height :=
    fun y hy => addedAll_height_ge a G.length _ y (mem_unstablePart _ _ y hy)
  have heq : resultList s G a applied = _ := multiIter_eq_append Utxo.lt _ _ (by
    intro x hx y hy
    have h1 := hst x hx
    have h2 := hun y hy
    unfold Utxo.lt
    have h3 : ¬ x.height > y.height := by omega
    have h4 : (x.height == y.height) = false := by simp; omega
    simp [h3, h4])
  refine ⟨heq, ?_⟩
  rw [heq, List.pairwise_append]
  refine ⟨unstablePart_heights _ _, ?_, ?_⟩
  · exact stablePart_heights s (ledger G) hinv.stable a _ (fun e he => by have := hlt e he; omega)
  · intro y hy x hx
    have h1 := hst x hx
    have h2 := hun y hy
    omega

/-! ### one block changes the balance by "added minus removed" -/

/-- value of the output designated by `o` in the history (0 if unknown) -/
def valueAt (hist : List Block) (o : OutPoint) : Nat := ((outAt hist o).map (·.value)).getD 0

theorem totalValue_filter_split (p : Utxo → Bool) (l : List Utxo) :
    totalValue l = totalValue (l.filter p) + totalValue (l.filter (fun u => !(p u))) := by
  induction l with
  | nil => rfl
  | cons x xs ih =>
    have hc : ∀ (y : Utxo) (ys : List Utxo), totalValue (y :: ys) = y.value + totalValue ys := by
      intro y ys; simp [totalValue, sumNat_eq_sum]
    by_cases h : p x = true
    · simp only [List.filter_cons, h, if_true, Bool.not_true, Bool.false_eq_true, if_false, hc, ih]
      omega
    · have h' : p x = false := by simpa using h
      simp only [List.filter_cons, h', Bool.false_eq_true, if_false, Bool.not_false, if_true, hc, ih]
      omega

theorem ledger_step_sum (a : Addr) (C : List Block) (b : Block) (hist : List Block)
    (hv : TxValid (C ++ [b])) (hu : TxidsUnique (C ++ [b])) (hsub : ∀ x ∈ C ++ [b], x ∈ hist)
    (hc : TxidsConsistent hist) :
    totalValue (ledgerFor a (C ++ [b])) + sumNat ((removedSpec hist b a).map (valueAt hist)) =
      totalValue (ledgerFor a C) + totalValue (addedUtxos a C.length b) := by
  have hvC : TxValid C := TxValid_prefix C [b] hv
  have huC := TxidsUnique_left C [b] hu
  have hsubC : ∀ x ∈ C, x ∈ hist := fun x hx => hsub x (List.mem_append_left _ hx)
  have hbh : b ∈ hist := hsub b (by simp)
  have hA : addedAll a C.length [b] = addedUtxos a C.length b := by simp [addedAll]
  have hR : removedAll hist a [b] = removedSpec hist b a := by simp [removedAll]
  have hvb : TxValidFrom (ledger C) C.length [b] := by
    have := ((TxValidFrom_append [] 0 C [b]).mp hv).2
    simpa [ledger] using this
  have hwf : ∀ x ∈ [b], BlockWF x := TxValidFrom_blockWF _ _ _ hvb
  -- the decomposition for the single block
  have hdec := ledgerFor_decomp a C [b] hist hv hu hsub hc
  rw [hA, hR, ← List.filter_append] at hdec
  -- X = everything that exists before or is created in the block
  have hsplit := totalValue_filter_split (fun u => !((removedSpec hist b a).contains u.outpoint))
    (ledgerFor a C ++ addedUtxos a C.length b)
  rw [← hdec, totalValue_append] at hsplit
  simp only [Bool.not_not] at hsplit
  -- the removed part
  suffices hkey : totalValue ((ledgerFor a C ++ addedUtxos a C.length b).filter
      (fun u => (removedSpec hist b a).contains u.outpoint)) =
      sumNat ((removedSpec hist b a).map (valueAt hist)) by
    rw [← hkey]; omega
  -- values are the true values
  have hval : ∀ u ∈ ledgerFor a C ++ addedUtxos a C.length b, u.value = valueAt hist u.outpoint := by
    intro u hu'
    rcases List.mem_append.mp hu' with h | h
    · obtain ⟨t, _, ho, hv', _⟩ := ledgerFor_fields a C hist hvC huC hsubC hc u h
      simp [valueAt, ho, hv']
    · rw [← hA] at h
      obtain ⟨i, b', tx, v, t, hb', htx, hvt, _, rfl⟩ := (mem_addedAll a C.length [b] u).mp h
      have hb'' : b = b' := by
        have := List.mem_of_getElem? hb'
        exact (by simpa using this : b' = b).symm
      subst hb''
      have : tx ∈ txsOf hist := (mem_txsOf _ _).mpr ⟨b, hbh, htx⟩
      simp [valueAt, outAt_of_mem hist hc tx this v, hvt]
  -- outpoints of X are pairwise distinct
  have hXnd : ((ledgerFor a C ++ addedUtxos a C.length b).map (·.outpoint)).Nodup := by
    rw [List.map_append, List.nodup_append]
    refine ⟨ledgerFor_outpoints_nodup a C hvC huC, ?_, ?_⟩
    · rw [← hA]
      exact addedAll_outpoints_nodup a C.length [b] hwf (TxidsUnique_right C [b] hu)
    · intro o1 h1 o2 h2 heq
      subst heq
      obtain ⟨u1, hu1, rfl⟩ := List.mem_map.mp h1
      obtain ⟨u2, hu2, heq⟩ := List.mem_map.mp h2
      obtain ⟨i, b1, tx1, v1, t1, hb1, htx1, _, _, _, rfl, _⟩ := (mem_ledgerFor_iff a C hvC huC u1).mp hu1
      rw [← hA] at hu2
      obtain ⟨j, b2, tx2, v2, t2, hb2, htx2, _, _, rfl⟩ := (mem_addedAll a C.length [b] u2).mp hu2
      simp only [OutPoint.mk.injEq] at heq
      unfold TxidsUnique at hu
      rw [txsOf_append, List.map_append, List.nodup_append] at hu
      refine hu.2.2 tx1.txid (List.mem_map.mpr ⟨tx1, (mem_txsOf _ _).mpr ⟨b1, List.mem_of_getElem? hb1, htx1⟩, rfl⟩)
        tx2.txid (List.mem_map.mpr ⟨tx2, (mem_txsOf _ _).mpr ⟨b2, List.mem_of_getElem? hb2, htx2⟩, rfl⟩) heq.1.symm
  -- removed outpoints are pairwise distinct
  have hRnd : (removedSpec hist b a).Nodup := by
    have := insB_nodup (C ++ [b]) hv hu
    rw [insB_append, List.nodup_append] at this
    exact this.2.1.sublist (removedSpec_sublist hist b a)
  -- every removed outpoint exists in X
  have hRsub : ∀ o ∈ removedSpec hist b a, o ∈ (ledgerFor a C ++ addedUtxos a C.length b).map (·.outpoint) := by
    intro o ho
    have hpay : paysTo hist a o := by
      have := (mem_removedAll hist a [b] o).mp (by rw [hR]; exact ho)
      exact this.2
    have hin : o ∈ insF (flat C.length [b]) := by
      rw [insF_flat]
      exact (removedSpec_sublist hist b a).subset ho
    rw [List.map_append, List.mem_append]
    rcases ins_mem_of_FlatOK _ _ (FlatOK_of_TxValidFrom _ _ _ hvb) o hin with h | h
    · left
      obtain ⟨e, he, rfl⟩ := List.mem_map.mp h
      have hout := (mem_ledger_outAt C hist hvC huC hsubC hc e he).1
      unfold paysTo at hpay
      rw [hout] at hpay
      simp only [Option.bind_some] at hpay
      exact List.mem_map.mpr ⟨⟨e.2.2, e.1, e.2.1.value⟩,
        List.mem_filterMap.mpr ⟨e, he, by simp [hpay]⟩, rfl⟩
    · right
      obtain ⟨e, he, rfl⟩ := List.mem_map.mp h
      obtain ⟨⟨h', tx⟩, hm, hce⟩ := (mem_createdF _ e).mp he
      obtain ⟨i, b', hb', htx, _⟩ := (mem_flat C.length [b] h' tx).mp hm
      have hb'' : b = b' := by
        have := List.mem_of_getElem? hb'
        exact (by simpa using this : b' = b).symm
      subst hb''
      obtain ⟨v, t, hvt, _, rfl⟩ := (mem_createdEntries _ _ _).mp hce
      have htxh : tx ∈ txsOf hist := (mem_txsOf _ _).mpr ⟨b, hbh, htx⟩
      unfold paysTo at hpay
      rw [outAt_of_mem hist hc tx htxh v, hvt] at hpay
      simp only [Option.bind_some] at hpay
      rw [← hA, ← createdF_filterMap a C.length [b] hwf]
      exact List.mem_map.mpr ⟨⟨h', ⟨tx.txid, v⟩, t.value⟩,
        List.mem_filterMap.mpr ⟨_, he, by simp [toUtxo?, hpay]⟩, rfl⟩
  -- the permutation
  have hperm : (((ledgerFor a C ++ addedUtxos a C.length b).filter
      (fun u => (removedSpec hist b a).contains u.outpoint)).map (·.outpoint)).Perm
      (removedSpec hist b a) := by
    rw [List.perm_ext_iff_of_nodup (hXnd.sublist ((List.filter_sublist).map _)) hRnd]
    intro o
    constructor
    · intro ho
      obtain ⟨u, hu', rfl⟩ := List.mem_map.mp ho
      simpa using (List.mem_filter.mp hu').2
    · intro ho
      obtain ⟨u, hu', rfl⟩ := List.mem_map.mp (hRsub o ho)
      exact List.mem_map.mpr ⟨u, List.mem_filter.mpr ⟨hu', by simpa using ho⟩, rfl⟩
  unfold totalValue
  have hmap : ((ledgerFor a C ++ addedUtxos a C.length b).filter
      (fun u => (removedSpec hist b a).contains u.outpoint)).map (·.value) =
      (((ledgerFor a C ++ addedUtxos a C.length b).filter
      (fun u => (removedSpec hist b a).contains u.outpoint)).map (·.outpoint)).map (valueAt hist) := by
    rw [List.map_map]
    apply List.map_congr_left
    intro u hu'
    exact hval u (List.mem_filter.mp hu').1
  rw [hmap]
  exact sumNat_perm (hperm.map _)

/-! ### `get_balance` over the unstable blocks -/

/-- the per-block step of `get_balance` (the local `step` of `State.getBalance`) -/
def balStep (s : State) (a : Addr) (acc : Option Int) (b : CBlock) : Option Int :=
  let addV := (s.unstable.cache.getAdded b.hash a).map (fun o => (s.unstable.cache.getTxOut o).map (·.1.value))
  let remV := (s.unstable.cache.getRemoved b.hash a).map (fun o => (s.unstable.cache.getTxOut o).map (·.1.value))
  if addV.any Option.isNone || remV.any Option.isNone then none
  else match acc with
    | none => none
    | some x =>
      let y := x + ((addV.filterMap id).foldl (· + ·) 0 : Nat) - ((remV.filterMap id).foldl (· + ·) 0 : Nat)
      if y < 0 then none else some y

theorem getBalance_unfold (s : State) (a : Addr) (c : Nat) (stable : Nat)
    (hs : s.utxos.getBalance a = some stable) (hc : c ≤ s.unstable.mainChain.length) :
    s.getBalance (.ok a) c =
      match (State.stablePrefix (Tree.levels CBlock.hash s.unstable.tree) c s.unstable.mainChain 0).foldl
          (balStep s a) (some (stable : Int)) with
      | none => .trap "balance arithmetic / missing tx out"
      | some v => .ok v.toNat := by
  unfold State.getBalance
  have hc' : ¬ s.unstable.mainChain.length < c := by omega
  simp only [hs, hc', if_false]
  rfl

theorem addV_eq (u : Unstable) (hist : List Block) (hce : CachesExact u hist)
    (hc : TxidsConsistent hist) (b : CBlock) (hb : b ∈ u.tree.blocks) (hbh : b.blk ∈ hist)
    (a : Addr) (h : Nat) :
    (u.cache.getAdded b.hash a).map (fun o => (u.cache.getTxOut o).map (·.1.value)) =
      (addedUtxos a h b.blk).map (fun x => some x.value) := by
  have := congrArg (List.map (Option.map (fun x : Utxo => x.value))) (addedHere_eq u hist hce hc b hb hbh a h)
  simp only [List.map_map] at this
  have e1 : ((Option.map fun x : Utxo => x.value) ∘ fun o =>
      Option.map (fun p : TxOut × Nat => Utxo.mk h o p.1.value) (u.cache.getTxOut o)) =
      fun o => Option.map (fun x => x.1.value) (u.cache.getTxOut o) := by
    funext o; simp [Function.comp_def, Option.map_map]
  have e2 : ((Option.map fun x : Utxo => x.value) ∘ some) = fun x => some x.value := by
    funext x; rfl
  rw [e1, e2] at this
  exact this

theorem remV_eq (u : Unstable) (hist : List Block) (hce : CachesExact u hist)
    (b : CBlock) (hb : b ∈ u.tree.blocks) (a : Addr) :
    (u.cache.getRemoved b.hash a).map (fun o => (u.cache.getTxOut o).map (·.1.value)) =
      (removedSpec hist b.blk a).map (fun o => some (valueAt hist o)) := by
  rw [hce.removed b hb a]
  apply List.map_congr_left
  intro o ho
  have hm : o ∈ blockRefs b.blk := by
    unfold removedSpec at ho
    obtain ⟨tx, htx, ho'⟩ := List.mem_flatMap.mp ho
    exact mem_blockRefs_input b.blk tx htx o (List.mem_filter.mp ho').1
  obtain ⟨info, hf, hout⟩ := getTxOut_of_ref u hist hce b hb o hm
  simp [OutPointsCache.getTxOut, hf, valueAt, hout]

theorem foldl_some_values (l : List Nat) :
    ((l.map some).any Option.isNone = false) ∧ ((l.map some).filterMap id).foldl (· + ·) 0 = sumNat l := by
  refine ⟨by simp [List.any_eq_false], ?_⟩
  simp [List.filterMap_map, sumNat]

theorem balStep_spec {s : State} {G : List Block} (hinv : Inv s G) (a : Addr) (pre : List CBlock)
    (b : CBlock) (hp : PathCtx s G (pre ++ [b])) :
    balStep s a (some (totalValue (ledgerFor a (G ++ pre.map (·.blk))) : Int)) b =
      some (totalValue (ledgerFor a (G ++ (pre ++ [b]).map (·.blk))) : Int) := by
  have hb : b ∈ s.unstable.tree.blocks := hp.inTree b (by simp)
  have hbh : b.blk ∈ histOf s G := List.mem_append_right _ (List.mem_map.mpr ⟨b, hb, rfl⟩)
  have hcons := hist_consistent hinv
  have hadd := addV_eq s.unstable (histOf s G) hinv.caches hcons b hb hbh a (G ++ pre.map (·.blk)).length
  have hrem := remV_eq s.unstable (histOf s G) hinv.caches b hb a
  have hsum := ledger_step_sum a (G ++ pre.map (·.blk)) b.blk (histOf s G)
    (by have := hp.valid; simpa [List.map_append] using this)
    (by have := hp.unique; simpa [List.map_append] using this)
    (by intro x hx; apply hp.sub_hist; simpa [List.map_append] using hx) hcons
  have e1 : (addedUtxos a (G ++ pre.map (·.blk)).length b.blk).map (fun x => some x.value) =
      ((addedUtxos a (G ++ pre.map (·.blk)).length b.blk).map (·.value)).map some := by
    rw [List.map_map]; rfl
  have e2 : (removedSpec (histOf s G) b.blk a).map (fun o => some (valueAt (histOf s G) o)) =
      ((removedSpec (histOf s G) b.blk a).map (valueAt (histOf s G))).map some := by
    rw [List.map_map]; rfl
  unfold balStep
  simp only [hadd, hrem, e1, e2, (foldl_some_values _).1, (foldl_some_values _).2, Bool.or_self,
    Bool.false_eq_true, if_false]
  have hmap : (G ++ (pre ++ [b]).map (·.blk)) = (G ++ pre.map (·.blk)) ++ [b.blk] := by simp
  rw [hmap]
  unfold totalValue at hsum ⊢
  split
  · omega
  · congr 1; omega

theorem balFold_spec {s : State} {G : List Block} (hinv : Inv s G) (a : Addr) (rest : List CBlock) :
    ∀ (pre : List CBlock), PathCtx s G (pre ++ rest) →
    rest.foldl (balStep s a) (some (totalValue (ledgerFor a (G ++ pre.map (·.blk))) : Int)) =
      some (totalValue (ledgerFor a (G ++ (pre ++ rest).map (·.blk))) : Int) := by
  induction rest with
  | nil => intro pre _; simp
  | cons b bs ih =>
    intro pre hp
    have hp' : PathCtx s G ((pre ++ [b]) ++ bs) := by simpa using hp
    rw [List.foldl_cons, balStep_spec hinv a pre b hp'.prefix, ih (pre ++ [b]) hp']
    simp

/-- **Stable reader `get_address_outpoints`, full statement**: the returned outpoints are the
    outpoints of a list `us` of UTXOs that is a permutation of the ledger's UTXOs of `a` and whose
    heights never increase (index-key order = height descending first). -/
theorem getAddressOutpoints_sorted (s : State) (l : LedgerMap) (hs : StableIs s.utxos l)
    (hl : (l.map (·.1)).Nodup) (a : Addr) (hb : ∀ e ∈ l, e.2.2 < 2 ^ 32) :
    ∃ us : List Utxo, us.map (·.outpoint) = s.utxos.getAddressOutpoints a none ∧
      us.Perm (lfor a l) ∧ us.Pairwise (fun u1 u2 => u2.height ≤ u1.height) := by
  refine ⟨stablePart s a [], ?_, ?_, stablePart_heights s l hs a [] hb⟩
  · unfold stablePart
    have hf : (s.utxos.getAddressOutpoints a none).filter (fun o => !(([] : List OutPoint).contains o)) =
        s.utxos.getAddressOutpoints a none := by
      rw [List.filter_eq_self]; intro o _; simp
    rw [hf]
    have hall : ∀ o ∈ s.utxos.getAddressOutpoints a none, ∃ u,
        (s.utxos.getUtxo o).map (fun p => Utxo.mk p.2 o p.1.value) = some u ∧ u.outpoint = o := by
      intro o ho
      have := (getAddressOutpoints_perm s.utxos l hs hl a).mem_iff.mp ho
      obtain ⟨u, hu, rfl⟩ := List.mem_map.mp this
      exact ⟨u, getUtxo_of_mem_lfor s l hs hl a u hu, rfl⟩
    generalize s.utxos.getAddressOutpoints a none = ops at hall
    induction ops with
    | nil => rfl
    | cons o os ih =>
      obtain ⟨u, hu, huo⟩ := hall o List.mem_cons_self
      rw [List.filterMap_cons, hu, List.map_cons, huo,
        ih (fun x hx => hall x (List.mem_cons_of_mem _ hx))]
  · have := stablePart_perm s l hs hl a []
    refine this.trans (List.Perm.of_eq ?_)
    rw [List.filter_eq_self]; intro u _; simp

end Btc
