import BtcModel.Model.Header
import BtcModel.Spec.Consensus

/-! Helper lemmas for C11 (header validation): sorting / median, ancestor walks, compact targets. -/
namespace Btc.Header

open List
open Btc.Tree (Net)
open Btc.Spec.Consensus

/-! ## `sortNat` is a sorted permutation -/

theorem insertNat_perm (x : Nat) (l : List Nat) : (insertNat x l).Perm (x :: l) := by
  induction l with
  | nil => simp [insertNat]
  | cons y ys ih =>
    unfold insertNat
    split
    · exact Perm.refl _
    · exact (Perm.cons y ih).trans (Perm.swap x y ys)

theorem sortNat_perm (l : List Nat) : (sortNat l).Perm l := by
  induction l with
  | nil => simp [sortNat]
  | cons x xs ih =>
    have : sortNat (x :: xs) = insertNat x (sortNat xs) := rfl
    rw [this]
    exact (insertNat_perm x _).trans (Perm.cons x ih)

theorem insertNat_sorted (x : Nat) (l : List Nat) (h : l.Pairwise (· ≤ ·)) :
    (insertNat x l).Pairwise (· ≤ ·) := by
  induction l with
  | nil => simp [insertNat]
  | cons y ys ih =>
    unfold insertNat
    split
    · rename_i hxy
      refine Pairwise.cons ?_ h
      intro z hz
      rcases mem_cons.mp hz with rfl | hz
      · exact hxy
      · exact Nat.le_trans hxy (rel_of_pairwise_cons h hz)
    · rename_i hxy
      refine Pairwise.cons ?_ (ih h.tail)
      intro z hz
      have hz' := (insertNat_perm x ys).subset hz
      rcases mem_cons.mp hz' with rfl | hz'
      · omega
      · exact rel_of_pairwise_cons h hz'

theorem sortNat_sorted (l : List Nat) : (sortNat l).Pairwise (· ≤ ·) := by
  induction l with
  | nil => simp [sortNat]
  | cons x xs ih =>
    have : sortNat (x :: xs) = insertNat x (sortNat xs) := rfl
    rw [this]
    exact insertNat_sorted x _ ih

theorem sortNat_length (l : List Nat) : (sortNat l).length = l.length :=
  (sortNat_perm l).length_eq

/-! ## Rank counting in a sorted list -/

/-- in a sorted list, fewer than `k + 1` elements are strictly below the element at index `k` -/
theorem sorted_countLt_le (l : List Nat) (hs : l.Pairwise (· ≤ ·)) (k : Nat) (hk : k < l.length) :
    (l.filter (· < l[k])).length ≤ k := by
  induction l generalizing k with
  | nil => simp at hk
  | cons a t ih =>
    cases k with
    | zero =>
      have : (a :: t).filter (· < a) = [] := by
        apply filter_eq_nil_iff.mpr
        intro z hz
        rcases mem_cons.mp hz with rfl | hz
        · simp
        · have := rel_of_pairwise_cons hs hz
          simp; omega
      simpa using this
    | succ k =>
      have hk' : k < t.length := by simpa using hk
      have := ih hs.tail k hk'
      simp only [getElem_cons_succ, filter_cons]
      split <;> simp <;> omega

/-- in a sorted list, at least `k + 1` elements are at most the element at index `k` -/
theorem sorted_countLe_gt (l : List Nat) (hs : l.Pairwise (· ≤ ·)) (k : Nat) (hk : k < l.length) :
    k < (l.filter (· ≤ l[k])).length := by
  induction l generalizing k with
  | nil => simp at hk
  | cons a t ih =>
    cases k with
    | zero => simp
    | succ k =>
      have hk' : k < t.length := by simpa using hk
      have := ih hs.tail k hk'
      have ha : a ≤ t[k] := rel_of_pairwise_cons hs (getElem_mem hk')
      simp only [getElem_cons_succ, filter_cons]
      simp [ha]; omega

theorem length_filter_le_of_imp {p q : Nat → Bool} (l : List Nat) (h : ∀ x, p x = true → q x = true) :
    (l.filter p).length ≤ (l.filter q).length := by
  induction l with
  | nil => simp
  | cons a t ih =>
    cases hp : p a with
    | true => simp [hp, h a hp]; exact ih
    | false =>
      cases hq : q a with
      | true => simp [hp, hq]; omega
      | false => simp [hp, hq]; exact ih

theorem isUpperMedian_congr {l l' : List Nat} (h : l.Perm l') (m : Nat) :
    IsUpperMedian l m ↔ IsUpperMedian l' m := by
  unfold IsUpperMedian
  rw [h.mem_iff, (h.filter _).length_eq, (h.filter _).length_eq, h.length_eq]

/-- rank counting determines the value -/
theorem isUpperMedian_unique {l : List Nat} {m m' : Nat}
    (h : IsUpperMedian l m) (h' : IsUpperMedian l m') : m = m' := by
  have key : ∀ a b, a < b → (l.filter (· ≤ a)).length ≤ (l.filter (· < b)).length := by
    intro a b hab
    apply length_filter_le_of_imp
    intro x hx
    simp at hx ⊢; omega
  rcases Nat.lt_trichotomy m m' with hlt | heq | hgt
  · have := key m m' hlt
    have := h.2.2; have := h'.2.1; omega
  · exact heq
  · have := key m' m hgt
    have := h'.2.2; have := h.2.1; omega

/-- the element of index `len/2` of the sorted list is the upper median -/
theorem sortNat_isUpperMedian (l : List Nat) (hne : l ≠ []) :
    IsUpperMedian l ((sortNat l).getD (l.length / 2) 0) := by
  have hlen := sortNat_length l
  have hpos : 0 < l.length := length_pos_iff.mpr hne
  have hk : l.length / 2 < (sortNat l).length := by omega
  rw [← isUpperMedian_congr (sortNat_perm l)]
  have hget : (sortNat l).getD (l.length / 2) 0 = (sortNat l)[l.length / 2] := by
    simp [List.getD, getElem?_eq_getElem hk]
  rw [hget]
  refine ⟨getElem_mem hk, ?_, ?_⟩
  · rw [hlen]; exact sorted_countLt_le _ (sortNat_sorted l) _ hk
  · rw [hlen]; exact sorted_countLe_gt _ (sortNat_sorted l) _ hk

theorem upperMedian_spec (l : List Nat) (hne : l ≠ []) : IsUpperMedian l (upperMedian l) := by
  have hex := sortNat_isUpperMedian l hne
  unfold upperMedian
  cases hf : l.find? (fun m =>
    decide ((l.filter (· < m)).length ≤ l.length / 2) &&
      decide (l.length / 2 < (l.filter (· ≤ m)).length)) with
  | none =>
    have := find?_eq_none.mp hf _ hex.1
    refine absurd ?_ this
    simp only [Bool.and_eq_true, decide_eq_true_eq]
    exact ⟨hex.2.1, hex.2.2⟩
  | some m =>
    have hm := find?_some hf
    have hmem := mem_of_find?_eq_some hf
    simp at hm
    exact ⟨hmem, hm.1, hm.2⟩

/-- the model's median (sort, take index `len/2`) is the spec's rank-counting upper median -/
theorem sortNat_getD_eq_upperMedian (l : List Nat) :
    (sortNat l).getD (l.length / 2) 0 = upperMedian l := by
  by_cases hne : l = []
  · subst hne; simp [sortNat, upperMedian]
  · exact isUpperMedian_unique (sortNat_isUpperMedian l hne) (upperMedian_spec l hne)

/-! ## Ancestor walk of `is_timestamp_valid` -/

theorem ancestorTimes_eq_map_ancestors (s : Store) (initial : Nat) (n x : Nat) :
    ancestorTimes s initial n x = (ancestors s initial n x).map (·.time) := by
  induction n generalizing x with
  | zero => simp [ancestorTimes, ancestors]
  | succ n ih =>
    unfold ancestorTimes ancestors
    cases s.getByHash x with
    | none => simp
    | some p =>
      by_cases hx : x = initial
      · simp [hx]
      · simp [hx, ih]

theorem ancestors_length_le (s : Store) (initial : Nat) (n x : Nat) :
    (ancestors s initial n x).length ≤ n := by
  induction n generalizing x with
  | zero => simp [ancestors]
  | succ n ih =>
    unfold ancestors
    cases s.getByHash x with
    | none => simp
    | some p =>
      by_cases hx : x = initial
      · simp [hx]
      · have := ih p.prev
        simp [hx]; omega

/-- `ancestors … n x` is the first `n` elements of the complete ancestor chain -/
theorem ancestors_eq_take_of_chain {s : Store} {initial x : Nat} {l : List Hdr}
    (hc : Chain s initial x l) (n : Nat) : ancestors s initial n x = l.take n := by
  induction hc generalizing n with
  | missing hx => cases n <;> simp [ancestors, hx]
  | initial hx hi => subst hi; cases n <;> simp [ancestors, hx]
  | step hx hi _ ih => cases n <;> simp [ancestors, hx, hi, ih]

theorem chain_unique {s : Store} {initial x : Nat} {l l' : List Hdr}
    (h : Chain s initial x l) (h' : Chain s initial x l') : l = l' := by
  induction h generalizing l' with
  | missing hx => cases h' <;> simp_all
  | initial hx hi => cases h' <;> simp_all
  | step hx hi _ ih =>
    cases h' with
    | missing hx' => simp_all
    | initial hx' hi' => simp_all
    | step hx' hi' hc' =>
      rw [hx] at hx'; cases hx'
      rw [ih hc']

/-- each element of a chain is the store's entry for the `prev` of the one before it -/
theorem chain_links {s : Store} {initial x : Nat} {l : List Hdr} (hc : Chain s initial x l) :
    (∀ p, l.head? = some p → s.getByHash x = some p) ∧
    (∀ i (hi : i + 1 < l.length), s.getByHash (l[i]).prev = some l[i + 1]) := by
  induction hc with
  | missing hx => simp
  | initial hx hi => simp [hx]
  | step hx hi hc ih =>
    refine ⟨by simp [hx], ?_⟩
    intro i hi'
    cases i with
    | zero =>
      rename_i l
      cases l with
      | nil => simp at hi'
      | cons q t => simpa using ih.1 q (by simp)
    | succ i => simpa using ih.2 i (by simpa using hi')

theorem ancestorTimes_length_le (s : Store) (initial : Nat) (n x : Nat) :
    (ancestorTimes s initial n x).length ≤ n := by
  rw [ancestorTimes_eq_map_ancestors, length_map]; exact ancestors_length_le s initial n x

theorem mtpTimes_length_le (s : Store) (h : Hdr) : (mtpTimes s h).length ≤ 11 := by
  unfold mtpTimes; rw [length_map]; exact ancestors_length_le _ _ _ _

theorem mtpTimes_ne_nil {s : Store} {h prev : Hdr} (hp : s.getByHash h.prev = some prev) :
    mtpTimes s h ≠ [] := by
  unfold mtpTimes ancestors
  simp only [hp]
  split <;> simp

/-- `is_timestamp_valid` in terms of the spec's median time past -/
theorem timestampCheck_eq (s : Store) (h : Hdr) (now : Nat) :
    timestampCheck s h now =
      if h.time > now + 7200 then some .tooFarInFuture
      else if h.time ≤ medianPast s h then some .headerIsOld else none := by
  unfold timestampCheck medianPast
  simp only [sortNat_length, sortNat_getD_eq_upperMedian, ancestorTimes_eq_map_ancestors, mtpTimes]
  rfl

/-! ## Walk-back of `find_next_difficulty_in_chain` -/

/-- With fuel above the nominal height the walk never runs out of fuel (it stops at the latest at
    nominal height 0, a multiple of 2016), and it computes the spec's `walkBack` over the chain of
    `c`. No assumption on the store is needed. -/
theorem findNextDifficulty_eq_walkBack {net : Net} {s : Store} {initial : Nat} {c : Hdr}
    {l : List Hdr} {b : Bool} (hc : SelfChain s initial c l b) (ht fuel : Nat) (hf : ht < fuel) :
    findNextDifficulty net s initial fuel c ht = walkBack (powLimitBits net) b l ht := by
  induction hc generalizing ht fuel with
  | @stop c hi =>
    cases fuel with
    | zero => omega
    | succ f =>
      unfold findNextDifficulty walkBack walkBack difficultyAdjustmentInterval interval
      by_cases h1 : c.bits ≠ powLimitBits net ∨ ht % 2016 = 0
      · simp [h1]
      · simp [h1, hi]
  | @missing c hi hp =>
    cases fuel with
    | zero => omega
    | succ f =>
      unfold findNextDifficulty walkBack walkBack difficultyAdjustmentInterval interval
      by_cases h1 : c.bits ≠ powLimitBits net ∨ ht % 2016 = 0
      · simp [h1]
      · simp [h1, hi, hp]
  | @step c p l b hi hp _ ih =>
    cases fuel with
    | zero => omega
    | succ f =>
      unfold findNextDifficulty walkBack difficultyAdjustmentInterval interval
      by_cases h1 : c.bits ≠ powLimitBits net ∨ ht % 2016 = 0
      · simp [h1]
      · have hht : ht - 1 < f := by omega
        simp [h1, hi, hp, ih (ht - 1) f hht]

/-- `walkBack` returns the bits of the first header (index `i`) that carries a non-limit target
    or sits at a height that is a multiple of 2016 -/
theorem walkBack_eq_first (limit : Nat) (b : Bool) (l : List Hdr) (ht i : Nat) (hi : i < l.length)
    (hbefore : ∀ j (_ : j < i), l[j].bits = limit ∧ (ht - j) % 2016 ≠ 0)
    (hat : l[i].bits ≠ limit ∨ (ht - i) % 2016 = 0) :
    walkBack limit b l ht = some l[i].bits := by
  induction l generalizing ht i with
  | nil => simp at hi
  | cons c t ih =>
    unfold walkBack interval
    cases i with
    | zero => simp at hat; simp [hat]
    | succ i =>
      have h0 := hbefore 0 (by omega)
      simp at h0
      have hi' : i < t.length := by simpa using hi
      rw [if_neg (by omega)]
      simp only [getElem_cons_succ]
      apply ih (ht - 1) i hi'
      · intro j hj
        have := hbefore (j + 1) (by omega)
        simp only [getElem_cons_succ] at this
        refine ⟨this.1, ?_⟩
        have h2 := this.2
        rw [show ht - 1 - j = ht - (j + 1) by omega]; exact h2
      · simp only [getElem_cons_succ] at hat
        rw [show ht - 1 - i = ht - (i + 1) by omega]; exact hat

/-- … and, if there is no such header in the chain, the proof-of-work limit when the chain reaches
    the initial header, `none` when it is broken -/
theorem walkBack_exhausted (limit : Nat) (b : Bool) (l : List Hdr) (ht : Nat)
    (hall : ∀ j (_ : j < l.length), l[j].bits = limit ∧ (ht - j) % 2016 ≠ 0) :
    walkBack limit b l ht = if b then some limit else none := by
  induction l generalizing ht with
  | nil => simp [walkBack]
  | cons c t ih =>
    unfold walkBack interval
    have h0 := hall 0 (by simp)
    simp at h0
    rw [if_neg (by omega)]
    apply ih
    intro j hj
    have := hall (j + 1) (by simpa using hj)
    simp only [getElem_cons_succ] at this
    refine ⟨this.1, ?_⟩
    rw [show ht - 1 - j = ht - (j + 1) by omega]; exact this.2

/-- the walk-back is undefined exactly when the chain is broken and no header of it stops the walk -/
theorem walkBack_eq_none_iff (limit : Nat) (b : Bool) (l : List Hdr) (ht : Nat) :
    walkBack limit b l ht = none ↔
      b = false ∧ ∀ j (_ : j < l.length), l[j].bits = limit ∧ (ht - j) % 2016 ≠ 0 := by
  induction l generalizing ht with
  | nil => cases b <;> simp [walkBack]
  | cons c t ih =>
    unfold walkBack interval
    by_cases h1 : c.bits ≠ limit ∨ ht % 2016 = 0
    · simp only [h1, if_true]
      constructor
      · intro h; cases h
      · intro h
        have := h.2 0 (by simp)
        simp at this; omega
    · rw [if_neg h1, ih]
      constructor
      · intro h
        refine ⟨h.1, ?_⟩
        intro j hj
        cases j with
        | zero => simp; omega
        | succ j =>
          have := h.2 j (by simpa using hj)
          simp only [getElem_cons_succ]
          rw [show ht - (j + 1) = ht - 1 - j by omega]; exact this
      · intro h
        refine ⟨h.1, ?_⟩
        intro j hj
        have := h.2 (j + 1) (by simpa using hj)
        simp only [getElem_cons_succ] at this
        rw [show ht - 1 - j = ht - (j + 1) by omega]; exact this

/-- a broken chain ends in a header that is not the initial one and whose parent is absent -/
theorem selfChain_broken_last {s : Store} {initial : Nat} {c : Hdr} {l : List Hdr}
    (hc : SelfChain s initial c l false) :
    ∃ e, l.getLast? = some e ∧ e.hash ≠ initial ∧ s.getByHash e.prev = none := by
  generalize hb : false = b at hc
  induction hc with
  | stop hi => cases hb
  | @missing c hi hp => exact ⟨c, by simp, hi, hp⟩
  | @step c p l b hi hp hc ih =>
    obtain ⟨e, he, h1, h2⟩ := ih hb
    refine ⟨e, ?_, h1, h2⟩
    cases l with
    | nil => simp at he
    | cons q t => simpa [getLast?_cons_cons] using he

/-- every header of a chain except the last is not the initial header and links to the next -/
theorem selfChain_links {s : Store} {initial : Nat} {c : Hdr} {l : List Hdr} {b : Bool}
    (hc : SelfChain s initial c l b) :
    l.head? = some c ∧
    ∀ i (hi : i + 1 < l.length), l[i].hash ≠ initial ∧ s.getByHash l[i].prev = some l[i + 1] := by
  induction hc with
  | stop hi => simp
  | missing hi hp => simp
  | @step c p l b hi hp hc ih =>
    refine ⟨by simp, ?_⟩
    intro i hi'
    cases i with
    | zero =>
      cases l with
      | nil => simp at hi'
      | cons q t =>
        have := ih.1; simp at this; subst this
        simp [hi, hp]
    | succ i => simpa using ih.2 i (by simpa using hi')

/-! ## Compact target encoding -/

theorem fromCompact_powLimitBits (net : Net) : fromCompact (powLimitBits net) = maxTarget net := by
  cases net <;> decide

theorem fromCompact_mainnet_limit : fromCompact 0x1d00ffff = 0xFFFF * 2 ^ 208 := by decide
theorem fromCompact_regtest_limit : fromCompact 0x207fffff = 0x7FFFFF * 2 ^ 232 := by decide
theorem maxTarget_regtest_eq : maxTarget .regtest = 0x7FFFFF * 2 ^ 232 := by decide

theorem fromCompact_lt_two256 (bits : Nat) : fromCompact bits < 2 ^ 256 := by
  unfold fromCompact two256
  simp only
  split <;> dsimp only <;> split
  · exact Nat.two_pow_pos _
  · exact Nat.mod_lt _ (Nat.two_pow_pos _)
  · exact Nat.two_pow_pos _
  · exact Nat.mod_lt _ (Nat.two_pow_pos _)

/-- decoding never exceeds the unbounded (un-wrapped, un-zeroed) value -/
theorem fromCompact_le_raw (bits : Nat) :
    fromCompact bits ≤
      if bits / 2 ^ 24 ≤ 3 then (bits % 2 ^ 24) / 2 ^ (8 * (3 - bits / 2 ^ 24))
      else (bits % 2 ^ 24) * 2 ^ (8 * (bits / 2 ^ 24 - 3)) := by
  unfold fromCompact
  simp only
  by_cases hsz : bits / 2 ^ 24 ≤ 3
  · simp only [hsz, if_true]
    split
    · exact Nat.zero_le _
    · simp only [Nat.zero_mod, Nat.pow_zero, Nat.mul_one]
      exact Nat.mod_le _ _
  · simp only [hsz, if_false]
    split
    · exact Nat.zero_le _
    · refine Nat.le_trans (Nat.mod_le _ _) ?_
      exact Nat.mul_le_mul_left _ (Nat.pow_le_pow_right (by omega) (Nat.mod_le _ _))

theorem fromCompact_mk_le (c sz : Nat) :
    fromCompact (c % 2 ^ 24 + sz * 2 ^ 24) ≤
      if sz ≤ 3 then (c % 2 ^ 24) / 2 ^ (8 * (3 - sz)) else (c % 2 ^ 24) * 2 ^ (8 * (sz - 3)) := by
  have he : (c % 2 ^ 24 + sz * 2 ^ 24) / 2 ^ 24 = sz := by
    simp only [Nat.reducePow]; omega
  have hm : (c % 2 ^ 24 + sz * 2 ^ 24) % 2 ^ 24 = c % 2 ^ 24 := by
    simp only [Nat.reducePow]; omega
  have := fromCompact_le_raw (c % 2 ^ 24 + sz * 2 ^ 24)
  rw [he, hm] at this
  exact this

/-- the lossy compact encoding only drops low bits: decoding never exceeds the encoded target -/
theorem fromCompact_toCompactLossy_le (t : Nat) : fromCompact (toCompactLossy t) ≤ t := by
  unfold toCompactLossy
  generalize (bitLen t + 7) / 8 = size
  simp only
  by_cases hs : size ≤ 3
  · simp only [hs, if_true]
    have hsz : size = 0 ∨ size = 1 ∨ size = 2 ∨ size = 3 := by omega
    split
    · refine Nat.le_trans (fromCompact_mk_le _ _) ?_
      rcases hsz with rfl | rfl | rfl | rfl <;> simp only [Nat.reducePow, Nat.reduceMul, Nat.reduceSub,
        Nat.reduceAdd, Nat.reduceLeDiff, if_true, if_false] <;> omega
    · refine Nat.le_trans (fromCompact_mk_le _ _) ?_
      rcases hsz with rfl | rfl | rfl | rfl <;> simp only [Nat.reducePow, Nat.reduceMul, Nat.reduceSub,
        Nat.reduceLeDiff, if_true] <;> omega
  · simp only [hs, if_false]
    have hk : t / 2 ^ (8 * (size - 3)) * 2 ^ (8 * (size - 3)) ≤ t := Nat.div_mul_le_self _ _
    generalize hq : t / 2 ^ (8 * (size - 3)) = q at hk
    split
    · refine Nat.le_trans (fromCompact_mk_le _ _) ?_
      have h1 : ¬ size + 1 ≤ 3 := by omega
      simp only [h1, if_false]
      have : 8 * (size + 1 - 3) = 8 + 8 * (size - 3) := by omega
      rw [this, Nat.pow_add, ← Nat.mul_assoc]
      refine Nat.le_trans (Nat.mul_le_mul_right _ ?_) hk
      simp only [Nat.reducePow]; omega
    · refine Nat.le_trans (fromCompact_mk_le _ _) ?_
      simp only [hs, if_false]
      refine Nat.le_trans (Nat.mul_le_mul_right _ ?_) hk
      simp only [Nat.reducePow]; omega

/-! ## Retarget arithmetic (`CompactTarget::from_next_work_required`) -/

theorem clampTimespan_bounds (t : Nat) :
    minTimespan ≤ clampTimespan t ∧ clampTimespan t ≤ maxTimespan := by
  unfold clampTimespan minTimespan maxTimespan; omega

theorem clampTimespan_mono {t t' : Nat} (h : t ≤ t') : clampTimespan t ≤ clampTimespan t' := by
  unfold clampTimespan minTimespan maxTimespan; omega

theorem clampTimespan_eq_self {t : Nat} (h1 : minTimespan ≤ t) (h2 : t ≤ maxTimespan) :
    clampTimespan t = t := by
  unfold clampTimespan minTimespan maxTimespan at *; omega

/-- the 4x clamp: the unrounded retarget lies between a quarter and four times the base target -/
theorem unroundedRetarget_bounds (baseBits timespan : Nat) :
    fromCompact baseBits / 4 ≤ unroundedRetarget baseBits timespan ∧
      unroundedRetarget baseBits timespan ≤ 4 * fromCompact baseBits := by
  unfold unroundedRetarget targetTimespan
  have hb := clampTimespan_bounds timespan
  unfold minTimespan maxTimespan at hb
  generalize fromCompact baseBits = T at *
  generalize clampTimespan timespan = a at *
  constructor
  · have h1 : T * 302400 ≤ T * a := Nat.mul_le_mul_left _ hb.1
    have h2 : T * 302400 / 1209600 ≤ T * a / 1209600 := Nat.div_le_div_right h1
    omega
  · have h1 : T * a ≤ T * 4838400 := Nat.mul_le_mul_left _ hb.2
    have h2 : T * a / 1209600 ≤ T * 4838400 / 1209600 := Nat.div_le_div_right h1
    omega

/-- a longer measured timespan never lowers the (unrounded) required target -/
theorem unroundedRetarget_mono (baseBits : Nat) {t t' : Nat} (h : t ≤ t') :
    unroundedRetarget baseBits t ≤ unroundedRetarget baseBits t' := by
  unfold unroundedRetarget
  exact Nat.div_le_div_right (Nat.mul_le_mul_left _ (clampTimespan_mono h))

/-- an on-schedule period (exactly two weeks) leaves the target unchanged -/
theorem unroundedRetarget_on_schedule (baseBits : Nat) :
    unroundedRetarget baseBits targetTimespan = fromCompact baseBits := by
  unfold unroundedRetarget
  rw [clampTimespan_eq_self (by decide) (by decide)]
  exact Nat.mul_div_cancel _ (by decide)

theorem fromNextWorkRequired_regtest (last timespan : Nat) :
    fromNextWorkRequired .regtest last timespan = last := by
  simp [fromNextWorkRequired, noPowRetargeting]

/-- `from_next_work_required` on the retargeting networks: the unrounded retarget, capped by
    `min (4·T mod 2^256) maxTarget`, re-encoded -/
theorem fromNextWorkRequired_eq (net : Net) (hnet : net ≠ .regtest) (last timespan : Nat) :
    fromNextWorkRequired net last timespan =
      toCompactLossy (min (unroundedRetarget last timespan)
        (min (fromCompact last * 4 % 2 ^ 256) (maxTarget net))) := by
  have hn : noPowRetargeting net = false := by cases net <;> simp_all [noPowRetargeting]
  unfold fromNextWorkRequired unroundedRetarget clampTimespan minTimespan maxTimespan targetTimespan
    powTargetTimespan two256
  simp only [hn, Bool.false_eq_true, if_false, Nat.reduceMul, Nat.reduceDiv]
  generalize fromCompact last * max 302400 (min timespan 4838400) / 1209600 = r
  generalize min (fromCompact last * 4 % 2 ^ 256) (maxTarget net) = cap
  split
  · rw [Nat.min_eq_right (by assumption)]
  · rw [Nat.min_eq_left (by omega)]

/-- the product formed by the retarget stays below `2^256` for any base target a validated header
    can carry (so the model's unbounded multiplication agrees with the U256 one) -/
theorem retarget_mul_no_overflow (net : Net) (hnet : net ≠ .regtest) (last timespan : Nat)
    (hmax : fromCompact last ≤ maxTarget net) :
    fromCompact last * clampTimespan timespan < 2 ^ 256 := by
  have hb := (clampTimespan_bounds timespan).2
  unfold maxTimespan at hb
  have hm : maxTarget net = 0xFFFF * 2 ^ 208 := by cases net <;> simp_all [maxTarget]
  rw [hm] at hmax
  calc fromCompact last * clampTimespan timespan
      ≤ (0xFFFF * 2 ^ 208) * 4838400 := Nat.mul_le_mul hmax hb
    _ < 2 ^ 256 := by decide

/-- with a base target a validated header can carry, the Rust rule is Bitcoin Core's
    `CalculateNextWorkRequired`: scale, cap at the proof-of-work limit, re-encode (the extra `4·T`
    cap is implied by the timespan clamp) -/
theorem fromNextWorkRequired_eq_retargetBits (net : Net) (hnet : net ≠ .regtest) (last timespan : Nat)
    (hmax : fromCompact last ≤ maxTarget net) :
    fromNextWorkRequired net last timespan = retargetBits net last timespan := by
  rw [fromNextWorkRequired_eq net hnet, retargetBits]
  have hm : maxTarget net = 0xFFFF * 2 ^ 208 := by cases net <;> simp_all [maxTarget]
  have hub := (unroundedRetarget_bounds last timespan).2
  have hlt : fromCompact last * 4 < 2 ^ 256 := by
    rw [hm] at hmax
    calc fromCompact last * 4 ≤ (0xFFFF * 2 ^ 208) * 4 := Nat.mul_le_mul_right _ hmax
      _ < 2 ^ 256 := by decide
  rw [Nat.mod_eq_of_lt hlt]
  congr 1
  omega

end Btc.Header
