import BtcModel.Props.FullSys
import BtcModel.Props.C03History
import BtcModel.Props.C09
import BtcModel.Props.C15Spec

/-!
  Helper lemmas for `Props/FullCor.lean` (the per-property statements lifted to every message
  history of the canister).

  1. `SameAnswers`: two states give the same answer to every query endpoint; it is implied by
     `SameView`, by equality of the fields the queries read (`answers_congr`), by `set_config`
     and by an upgrade.
  2. What one call of `ingest_stable_blocks_into_utxoset` does to the tree, in a state satisfying
     `Inv2` (paused or not): a sequence of `pop`s (`Spec.PopSteps`) whose popped anchors are the
     blocks appended to the ghost (`inv2_ingest_popSteps`); a round on a paused state that does not
     finish the block keeps the view state (`paused_round`).
  3. Consequences of `PopSteps`: every `pop` was decided by the rule of `Props/C03.lean`
     (`DecidedSteps`), the popped blocks are a prefix of the served chain.
  4. The tree loses blocks only when the ghost grows (`frameRun_hashes_sublist`).
  5. The header store at the stable heights (`inv2_headers`).

  Nothing here depends on the model of announced-header insertion (`insertNextHeaders`,
  `insertedHeaders`, `processOps`, `finishOps`).
-/
namespace Btc.Lemmas.FullCor
open Btc Btc.State Btc.Spec Btc.Spec.Full Btc.Lemmas.Reach Btc.Lemmas.Reach2 Btc.Lemmas.FullSys
open Btc.Props.ReachAll

/-! ## 1. States that give the same answers -/

/-- `s` and `s'` give the same answer to every `get_utxos` (every filter, page requests
    included), `get_balance` and `get_block_headers` request, and the same height / hash /
    timestamp / difficulty in `get_blockchain_info`.  (Not included: `utxos_length` of
    `get_blockchain_info` — finding F10 — and the fee percentiles, which also depend on the
    fee-percentile cache.) -/
structure SameAnswers (s s' : State) : Prop where
  getUtxos : ∀ x f limit, s.getUtxos x f limit = s'.getUtxos x f limit
  getBalance : ∀ x c, s.getBalance x c = s'.getBalance x c
  getBlockHeaders : ∀ maxHeaders start end_,
    s.getBlockHeaders maxHeaders start end_ = s'.getBlockHeaders maxHeaders start end_
  infoHeight : s.blockchainInfo.height = s'.blockchainInfo.height
  infoHash : s.blockchainInfo.hash = s'.blockchainInfo.hash
  infoTimestamp : s.blockchainInfo.timestamp = s'.blockchainInfo.timestamp
  infoDifficulty : s.blockchainInfo.difficulty = s'.blockchainInfo.difficulty

theorem SameAnswers.refl (s : State) : SameAnswers s s :=
  ⟨fun _ _ _ => rfl, fun _ _ => rfl, fun _ _ _ => rfl, rfl, rfl, rfl, rfl⟩

theorem SameAnswers.symm {s s' : State} (h : SameAnswers s s') : SameAnswers s' s :=
  ⟨fun x f l => (h.getUtxos x f l).symm, fun x c => (h.getBalance x c).symm,
   fun m st e => (h.getBlockHeaders m st e).symm, h.infoHeight.symm, h.infoHash.symm,
   h.infoTimestamp.symm, h.infoDifficulty.symm⟩

theorem SameAnswers.trans {s s' s'' : State} (h : SameAnswers s s') (h' : SameAnswers s' s'') :
    SameAnswers s s'' :=
  ⟨fun x f l => (h.getUtxos x f l).trans (h'.getUtxos x f l),
   fun x c => (h.getBalance x c).trans (h'.getBalance x c),
   fun m st e => (h.getBlockHeaders m st e).trans (h'.getBlockHeaders m st e),
   h.infoHeight.trans h'.infoHeight, h.infoHash.trans h'.infoHash,
   h.infoTimestamp.trans h'.infoTimestamp, h.infoDifficulty.trans h'.infoDifficulty⟩

theorem SameView.answers {s s0 : State} (h : SameView s s0) : SameAnswers s s0 :=
  ⟨h.getUtxos, h.getBalance, h.getBlockHeaders, h.infoHeight, h.infoHash, h.infoTimestamp,
   h.infoDifficulty⟩

theorem applyBlocks_congr' (s s' : State) (hc : s'.unstable.cache = s.unstable.cache) (a : Addr) :
    ∀ (bs : List CBlock) (ht : Nat) (acc : List Utxo × List OutPoint),
      State.applyBlocks s' a bs ht acc = State.applyBlocks s a bs ht acc
  | [], _, _ => rfl
  | b :: bs, ht, (added, removed) => by
    simp only [State.applyBlocks, hc]
    split
    · rfl
    · exact applyBlocks_congr' s s' hc a bs _ _

theorem getUtxosFromChain_congr {s s' : State} (hu : s'.utxos = s.utxos)
    (ht : s'.unstable.tree = s.unstable.tree) (hc : s'.unstable.cache = s.unstable.cache)
    (addr : AddrArg) (c : Nat) (chain : List CBlock) (off : Option Utxo) (limit : Nat) :
    getUtxosFromChain s' addr c chain off limit = getUtxosFromChain s addr c chain off limit := by
  unfold getUtxosFromChain
  cases addr with
  | malformed => rfl
  | wrongNetwork => rfl
  | ok a =>
    simp only [hu, ht, applyBlocks_congr' s s' hc, addressUtxos]

/-- **the queries read the stable set, the tree, the outpoints cache and the header store only** -/
theorem answers_congr {s s' : State} (hu : s'.utxos = s.utxos)
    (ht : s'.unstable.tree = s.unstable.tree) (hc : s'.unstable.cache = s.unstable.cache)
    (hh : s'.headers = s.headers) : SameAnswers s' s := by
  have hm : s'.unstable.mainChain = s.unstable.mainChain := by
    unfold Unstable.mainChain; rw [ht]
  have hmh : s'.mainChainHeight = s.mainChainHeight := by
    unfold State.mainChainHeight; rw [ht, hu]
  refine ⟨?_, ?_, ?_, ?_, ?_, ?_, ?_⟩
  · intro x f limit
    unfold State.getUtxos
    cases f with
    | none_ => simp only [hm, getUtxosFromChain_congr hu ht hc]
    | minConf c => simp only [hm, getUtxosFromChain_congr hu ht hc]
    | page p =>
      cases p with
      | none => rfl
      | some p =>
        obtain ⟨tip, height, op⟩ := p
        simp only [ht]
        cases Tree.chainWithTip CBlock.hash tip s.unstable.tree with
        | none => rfl
        | some x => exact getUtxosFromChain_congr hu ht hc _ _ _ _ _
  · intro x c
    unfold State.getBalance
    cases x with
    | malformed => rfl
    | wrongNetwork => rfl
    | ok a => simp only [hu, hm, ht, hc]
  · intro m st e
    unfold State.getBlockHeaders State.stableHeight
    simp only [hmh, hu, hh, hm]
  · unfold State.blockchainInfo; simp only [hmh]
  · unfold State.blockchainInfo; simp only [hm, ht]
  · unfold State.blockchainInfo; simp only [hm, ht]
  · unfold State.blockchainInfo; simp only [hm, ht]

/-- a change outside the ledger part is invisible to the queries -/
theorem answers_frame {s s' : State} (hf : Spec.Full.Frame s s') : SameAnswers s' s :=
  answers_congr hf.utxos (by rw [hf.unstable]) (by rw [hf.unstable]) hf.headers

/-- `set_config` is invisible to the queries -/
theorem answers_setConfig (s : State) (c : SetConfig) : SameAnswers (s.setConfig c) s := by
  obtain ⟨h1, h2, h3, _, _, _, _, h8, _⟩ := Props.C09.setConfig_frame s c
  exact answers_congr h1 h2 h3 h8

/-- an upgrade (with or without a configuration) is invisible to the queries -/
theorem answers_upgrade (s : State) (c : Option SetConfig) : SameAnswers (s.upgrade c) s := by
  obtain ⟨h1, h2, h3, _⟩ := Props.C09.queries_upgrade_config s c
  obtain ⟨i1, i2, i3, i4⟩ := Props.C09.blockchainInfo_stripped_fields (Props.C09.stripped_upgrade' s c)
  exact ⟨h1, h2, h3, i1, i2, i3, i4⟩

/-! ## 2. One call of `ingest_stable_blocks_into_utxoset` -/

theorem popSteps_nil_eq {bound : Unstable.BoundFn} {u u' : Unstable} {n : Nat}
    (h : PopSteps bound u n [] u') : u' = u := by
  cases h; rfl

/-- **The loop, as a sequence of `pop`s.**  The result of the `while let Some(..) = peek()` loop
    is reached from the initial tree by the `pop`s of the anchors `popped`; if nothing was popped,
    a completed call changed nothing and a pause is a pause inside the first anchor. -/
theorem loop_popSteps (bound : Unstable.BoundFn) :
    ∀ (fuel : Nat) (s : State) (G : List Block) (B : Nat) (w : Bool), InvU s G →
      match State.ingestNewStable bound fuel s B w with
      | .done s' _ => ∃ popped, PopSteps bound s.unstable G.length popped s'.unstable ∧
          (popped = [] → s' = s)
      | .paused sp => ∃ popped, PopSteps bound s.unstable G.length popped sp.unstable ∧
          (popped = [] → ∃ A up, Unstable.peek bound s.unstable = some A ∧
            s.utxos.ingestBlock A.blk B = .paused up ∧
            sp = { s with headers := s.headers.insert A.blk s.utxos.nextHeight, utxos := up })
      | .trap _ => True
  | 0, s, G, B, w, _ => by
    have e : State.ingestNewStable bound 0 s B w = .done s w := by simp only [State.ingestNewStable]
    rw [e]
    exact ⟨[], PopSteps.nil _ _, fun _ => rfl⟩
  | fuel + 1, s, G, B, w, hI => by
    cases hpeek : Unstable.peek bound s.unstable with
    | none =>
      rw [Props.C08.ingestNewStable_none _ _ _ _ _ hpeek]
      exact ⟨[], PopSteps.nil _ _, fun _ => rfl⟩
    | some anchor =>
      rcases ingest_step_U bound s G B anchor hI hpeek with
        ⟨_, h2⟩ | ⟨_, u', s2, hu', hpop, hI2, _, _, _, hpp⟩
      · cases hr : s.utxos.ingestBlock anchor.blk B with
        | paused up =>
          rw [Props.C08.ingestNewStable_paused_step _ _ _ _ _ _ up hpeek hr]
          exact ⟨[], PopSteps.nil _ _, fun _ => ⟨anchor, up, rfl, hr, rfl⟩⟩
        | done a b => rw [hr] at h2; cases h2
        | trap m => rw [hr] at h2; cases h2
      · rw [Props.C08.ingestNewStable_done_step _ _ _ _ _ _ u' _ s2 hpeek hu' hpop]
        have ih := loop_popSteps bound fuel s2 (G ++ [anchor.blk]) (B - UtxoSet.blockWork anchor.blk) true hI2
        cases hres : State.ingestNewStable bound fuel s2 (B - UtxoSet.blockWork anchor.blk) true with
        | trap m => trivial
        | done s' w' =>
          rw [hres] at ih
          obtain ⟨popped, hp, _⟩ := ih
          exact ⟨anchor.blk :: popped, PopSteps.cons _ _ _ _ _ _ hpp (by simpa using hp),
            fun h => by cases h⟩
        | paused sp =>
          rw [hres] at ih
          obtain ⟨popped, hp, _⟩ := ih
          exact ⟨anchor.blk :: popped, PopSteps.cons _ _ _ _ _ _ hpp (by simpa using hp),
            fun h => by cases h⟩

/-- **One call from a state satisfying the full invariant**: the tree after the call is reached by
    the `pop`s of the blocks appended to the ghost (`poppedAnchors`); a call that pops nothing
    either changes nothing or pauses inside the anchor of that very state. -/
theorem clean_ingest (bound : Unstable.BoundFn) {s : State} {G : List Block} (hA : InvAll s G)
    (b : Nat) :
    match s.ingestStable bound b with
    | .done s' _ => PopSteps bound s.unstable G.length (poppedAnchors s s') s'.unstable ∧
        (poppedAnchors s s' = [] → s' = s) ∧ Unstable.peek bound s'.unstable = none
    | .paused sp => PopSteps bound s.unstable G.length (poppedAnchors s sp) sp.unstable ∧
        (poppedAnchors s sp = [] → ∃ A, PausedAt' s sp G A b)
    | .trap _ => False := by
  have hI := hA.invU.inv
  have hloop := loop_popSteps bound (s.unstable.tree.blocksCount + 1) s G b false hA.invU
  have hnt := ingest_no_trap_clean bound hA b
  have hpost := ingest_stable_preserves_invU bound s G b hA.invU
  rw [Props.C08.ingestStable_eq_loop bound s G b hI] at hnt hpost ⊢
  cases hr : State.ingestNewStable bound (s.unstable.tree.blocksCount + 1) s b false with
  | trap m => exact hnt m hr
  | done s' w =>
    rw [hr] at hloop hpost
    obtain ⟨popped, hp, h0⟩ := hloop
    obtain ⟨_, _, _, _, _, _, hpk, _⟩ := hpost
    have e : poppedAnchors s s' = popped := poppedAnchors_of_popSteps hI hp
    simp only
    rw [e]
    exact ⟨hp, h0, hpk⟩
  | paused sp =>
    rw [hr] at hloop
    obtain ⟨popped, hp, h0⟩ := hloop
    have e : poppedAnchors s sp = popped := poppedAnchors_of_popSteps hI hp
    simp only
    rw [e]
    refine ⟨hp, fun hnil => ?_⟩
    obtain ⟨A, up, hpeek, hib, rfl⟩ := h0 hnil
    exact ⟨A, Props.C08.pausedAt_first bound s G b A up hI hpeek hib, hib⟩

/-- **One call from a paused state** (`PausedAt' s0 s G A B`): the same, and a call that appends
    nothing to the ghost is a further pause inside the same block `A`, with the *same* view
    state `s0`; a call that completes has appended at least the block `A`. -/
theorem paused_round (bound : Unstable.BoundFn) {s0 s : State} {G : List Block} {A : CBlock}
    {B : Nat} (hA : InvAll s0 G) (hP : PausedAt' s0 s G A B) (b : Nat) :
    match s.ingestStable bound b with
    | .done s' _ => PopSteps bound s.unstable G.length (poppedAnchors s s') s'.unstable ∧
        poppedAnchors s s' ≠ [] ∧ Unstable.peek bound s'.unstable = none
    | .paused sp => PopSteps bound s.unstable G.length (poppedAnchors s sp) sp.unstable ∧
        (poppedAnchors s sp = [] → PausedAt' s0 sp G A (B + b))
    | .trap _ => True := by
  have hI := hA.invU.inv
  have hcont : s.utxos.ingestContinue b = some (s0.utxos.ingestBlock A.blk (B + b)) :=
    Props.C08.pause_resume s0.utxos A.blk B s.utxos hI.stable.notIngesting hP.round b
  cases hpeek : Unstable.peek bound s0.unstable with
  | none =>
    have hpeek' : Unstable.peek bound s.unstable = none := by rw [hP.unstable]; exact hpeek
    cases hr : s0.utxos.ingestBlock A.blk (B + b) with
    | paused u2 =>
      rw [hr] at hcont
      have hres : s.ingestStable bound b = .paused { s with utxos := u2 } := by
        unfold State.ingestStable
        simp only [hcont]
      rw [hres]
      simp only
      rw [poppedAnchors_same (s := s) (x := { s with utxos := u2 }) rfl]
      exact ⟨PopSteps.nil _ _, fun _ => ⟨Props.C08.pausedAt_next hP.base b u2 hcont, hr⟩⟩
    | trap m =>
      rw [hr] at hcont
      have hres : s.ingestStable bound b = .trap m := by
        unfold State.ingestStable
        simp only [hcont]
      rw [hres]; trivial
    | done u' w1 =>
      rw [hr] at hcont
      have hres : s.ingestStable bound b = .trap "popped block differs from ingested block" := by
        unfold State.ingestStable
        simp only [hcont]
        rw [popBlock_none_of_peek (st := { s with utxos := u' }) hpeek']
      rw [hres]; trivial
  | some anchor =>
    obtain ⟨_, _, hanchor⟩ := Props.InvIngest.peek_eq bound s0.unstable anchor hpeek
    have hAa : anchor = A := hanchor.trans hP.base.anchor
    subst hAa
    have hres : s.ingestStable bound b = s0.ingestStable bound (B + b) := by
      have hround := hP.round
      have hs := hP.state_eq
      generalize s.utxos = u at hs hround
      subst hs
      rw [Props.C08.resume_eq bound s0 G B anchor u hI hpeek hround b s0.unstable.tree.blocksCount
        false (Nat.lt_succ_self _)]
      exact (Props.C08.ingestStable_eq_loop bound s0 G (B + b) hI).symm
    have hclean := clean_ingest bound hA (B + b)
    rw [hres]
    cases hr : s0.ingestStable bound (B + b) with
    | trap m => trivial
    | done s' w =>
      rw [hr] at hclean
      simp only at hclean ⊢
      rw [poppedAnchors_congr hP.unstable, hP.unstable]
      refine ⟨hclean.1, fun hnil => ?_, hclean.2.2⟩
      have := hclean.2.1 hnil
      subst this
      have hpk := hclean.2.2
      rw [hpeek] at hpk
      cases hpk
    | paused sp =>
      rw [hr] at hclean
      simp only at hclean ⊢
      rw [poppedAnchors_congr hP.unstable, hP.unstable]
      refine ⟨hclean.1, fun hnil => ?_⟩
      obtain ⟨A', hP'⟩ := hclean.2 hnil
      have : A' = anchor := hP'.base.anchor.symm.trans hP.base.anchor
      subst this
      exact hP'

/-- **The `ingest` step of `Spec.step2` in a state satisfying `Inv2`** (paused or not): the ghost
    is extended by `poppedAnchors`, and the new tree is reached from the old one by the `pop`s of
    exactly these blocks, the `k`-th at stable height `G.length + k`. -/
theorem inv2_ingest_popSteps (bound : Unstable.BoundFn) {s : State} {G : List Block} (h2 : Inv2 s G)
    (b : Nat) (s' : State) (G' : List Block)
    (hs : step2 bound (s, G) (.ingest b) = some (s', G')) :
    G' = G ++ poppedAnchors s s' ∧
    PopSteps bound s.unstable G.length (poppedAnchors s s') s'.unstable := by
  rw [step2_ingest] at hs
  simp only at hs
  rcases h2 with hA | ⟨s0, A, B, hA, hP⟩
  · have hc := clean_ingest bound hA b
    cases hr : s.ingestStable bound b with
    | trap m => rw [hr] at hs; cases hs
    | done s1 w =>
      rw [hr] at hs hc
      simp only [Option.some.injEq, Prod.mk.injEq] at hs
      obtain ⟨rfl, rfl⟩ := hs
      exact ⟨rfl, hc.1⟩
    | paused sp =>
      rw [hr] at hs hc
      simp only [Option.some.injEq, Prod.mk.injEq] at hs
      obtain ⟨rfl, rfl⟩ := hs
      exact ⟨rfl, hc.1⟩
  · have hc := paused_round bound hA hP b
    cases hr : s.ingestStable bound b with
    | trap m => rw [hr] at hs; cases hs
    | done s1 w =>
      rw [hr] at hs hc
      simp only [Option.some.injEq, Prod.mk.injEq] at hs
      obtain ⟨rfl, rfl⟩ := hs
      exact ⟨rfl, hc.1⟩
    | paused sp =>
      rw [hr] at hs hc
      simp only [Option.some.injEq, Prod.mk.injEq] at hs
      obtain ⟨rfl, rfl⟩ := hs
      exact ⟨rfl, hc.1⟩

/-- **No advance is withheld**: after a call that completes (in a state satisfying `Inv2`, paused
    or not) no block is stable any more. -/
theorem inv2_ingest_complete (bound : Unstable.BoundFn) {s : State} {G : List Block} (h2 : Inv2 s G)
    (b : Nat) (s' : State) (w : Bool) (h : s.ingestStable bound b = .done s' w) :
    Unstable.peek bound s'.unstable = none := by
  rcases h2 with hA | ⟨s0, A, B, hA, hP⟩
  · have hc := clean_ingest bound hA b
    rw [h] at hc
    exact hc.2.2
  · have hc := paused_round bound hA hP b
    rw [h] at hc
    exact hc.2.2

/-! ## 3. Consequences of a sequence of `pop`s -/

/-- **Every anchor advance was decided by the rule.**  `DecidedSteps bound u popped u'`: the tree
    of `u'` is reached from the tree of `u` by moving the anchor `popped.length` times, each time
    to the child `i` of the current anchor `r` that `get_stable_child` returns, which is the child
    satisfying the declarative rule of `Props/C03.lean` (difficulty rule, or — testnet/regtest —
    depth rule), and which is the second block of the chain being served; the block handed to the
    stable set is the old anchor. -/
inductive DecidedSteps (bound : Unstable.BoundFn) : Unstable → List Block → Unstable → Prop where
  | nil (u : Unstable) : DecidedSteps bound u [] u
  | cons (u u1 u2 : Unstable) (r : CBlock) (cs : List (Tree CBlock)) (i : Nat) (bs : List Block) :
      u.tree = .node r cs → cs[i]? = some u1.tree →
      Tree.stableChild CBlock.diff u.net u.thr (bound u.tree.blocksCount u.thr) (.node r cs) = some i →
      (Props.C03.DifficultyRule CBlock.diff u.thr r cs i ∨
        (u.net.depthRule = true ∧
          Props.C03.DepthRule CBlock.diff (bound u.tree.blocksCount u.thr) cs i)) →
      (u.mainChain)[1]? = some u1.tree.root →
      u1.thr = u.thr → u1.net = u.net →
      DecidedSteps bound u1 bs u2 → DecidedSteps bound u (r.blk :: bs) u2

theorem popSteps_decided {bound : Unstable.BoundFn} {u u' : Unstable} {n : Nat}
    {popped : List Block} (h : PopSteps bound u n popped u') : DecidedSteps bound u popped u' := by
  induction h with
  | nil u n => exact DecidedSteps.nil u
  | cons u n b u1 bs u2 hpop _ ih =>
    obtain ⟨r, cs, i, ht, hc, hb, hrule⟩ := Props.C03.pop_ok_spec bound u u1 (n + 1) b hpop
    obtain ⟨_, _, _, _, _, _, _, _, hthr, hnet⟩ := pop_ok_shape bound u u1 (n + 1) b hpop
    subst hb
    exact DecidedSteps.cons u u1 u2 r cs i bs ht hc
      ((Props.C03.stableChild_eq_some_iff _ _ _ _ _ _ _).mpr hrule) hrule
      (Props.C03.pop_new_anchor_on_main_chain bound u u1 (n + 1) r.blk hpop) hthr hnet ih

/-- the first popped block is the old anchor -/
theorem popSteps_head {bound : Unstable.BoundFn} {u u' : Unstable} {n : Nat} {b : Block}
    {bs : List Block} (h : PopSteps bound u n (b :: bs) u') : b = u.tree.root.blk := by
  cases h with
  | cons _ _ _ u1 _ _ hpop _ =>
    obtain ⟨r, cs, i, ht, _, hb, _⟩ := Props.C03.pop_ok_spec bound u u1 (n + 1) b hpop
    rw [hb, ht]; rfl

/-- the popped anchors are the first blocks of the served chain, and the rest of it is the new
    served chain (cached blocks, not only their bodies) -/
theorem popSteps_mainChainC {bound : Unstable.BoundFn} {u u' : Unstable} {n : Nat}
    {popped : List Block} (h : PopSteps bound u n popped u') :
    ∃ pc : List CBlock, pc.map (·.blk) = popped ∧ u.mainChain = pc ++ u'.mainChain := by
  induction h with
  | nil u n => exact ⟨[], rfl, rfl⟩
  | cons u n b u1 bs u2 hpop _ ih =>
    obtain ⟨pc, h1, h2⟩ := ih
    obtain ⟨r, cs, i, ht, _, hb, _⟩ := Props.C03.pop_ok_spec bound u u1 (n + 1) b hpop
    refine ⟨u.tree.root :: pc, ?_, ?_⟩
    · rw [List.map_cons, h1, hb, ht]; rfl
    · rw [Props.C03History.pop_mainChain u u1 (n + 1) b hpop, h2]; rfl

/-- the new anchor is the block of the old served chain at position `popped.length` -/
theorem popSteps_anchor_on_chain {bound : Unstable.BoundFn} {u u' : Unstable} {n : Nat}
    {popped : List Block} (h : PopSteps bound u n popped u') :
    (bestPath CBlock.diff u.tree)[popped.length]? = some u'.tree.root := by
  obtain ⟨pc, h1, h2⟩ := popSteps_mainChainC h
  have hhead := Props.C02.bestPath_head CBlock.diff u'.tree
  have e : bestPath CBlock.diff u.tree = pc ++ bestPath CBlock.diff u'.tree := by
    rw [← Props.C02.mainChain_eq_bestPath, ← Props.C02.mainChain_eq_bestPath]; exact h2
  rw [e, ← h1, List.length_map, List.getElem?_append_right (Nat.le_refl _), Nat.sub_self]
  rw [List.head?_eq_getElem?] at hhead
  exact hhead

/-! ## 4. The tree loses blocks only when the ghost grows -/

/-- the hashes of the unstable blocks (pre-order) -/
abbrev treeHashes (s : State) : List Nat := s.unstable.tree.blocks.map CBlock.hash

theorem prefix_antisymm {α : Type} {a b c : List α} (h1 : a <+: b) (h2 : b <+: c) (h : c = a) :
    b = a := by
  subst h
  have l1 := h1.length_le
  have l2 := h2.length_le
  exact (h2.eq_of_length (by omega))

/-- **a step of `Spec.step2` that does not extend the ghost does not remove a block from the
    tree** (a `push` adds one; an upgrade rebuilds the tree with the same hashes) -/
theorem step2_hashes_sublist (bound : Unstable.BoundFn) {s : State} {G : List Block}
    (h2 : Inv2 s G) (op : Op) (s' : State)
    (hs : step2 bound (s, G) op = some (s', G)) : (treeHashes s).Sublist (treeHashes s') := by
  cases op with
  | ingest b =>
    obtain ⟨hG, hp⟩ := inv2_ingest_popSteps bound h2 b s' G hs
    have hnil : poppedAnchors s s' = [] := by
      have := congrArg List.length hG
      simp only [List.length_append] at this
      exact List.eq_nil_of_length_eq_zero (by omega)
    rw [hnil] at hp
    rw [treeHashes, treeHashes, popSteps_nil_eq hp]
    exact List.Sublist.refl _
  | push b =>
    simp only [step2, step] at hs
    split at hs
    · rename_i u hu
      simp only [Option.some.injEq, Prod.mk.injEq, and_true] at hs
      subst hs
      exact (Props.C03.push_keeps_blocks s.unstable u s.utxos b hu).1.map _
    · cases hs
  | setConfig c =>
    simp only [step2, step, Option.some.injEq, Prod.mk.injEq, and_true] at hs
    subst hs
    rw [treeHashes, treeHashes, (Props.C09.setConfig_frame s c).2.1]
    exact List.Sublist.refl _
  | upgrade c =>
    simp only [step2, step, Option.some.injEq, Prod.mk.injEq, and_true] at hs
    subst hs
    rw [treeHashes, treeHashes, Props.C09.upgrade_hashes]
    exact List.Sublist.refl _
  | query =>
    simp only [step2, step, Option.some.injEq, Prod.mk.injEq, and_true] at hs
    subst hs
    exact List.Sublist.refl _
  | insertNext h =>
    have hs' : step bound (s, G) (.insertNext h) = some (s', G) := hs
    rw [treeHashes, treeHashes, (Props.C03History.other_step (Or.inr ⟨h, rfl⟩) hs').2.2.2]
    exact List.Sublist.refl _

/-- **a message (as a `FrameRun`) that does not extend the ghost does not remove a block from the
    tree** -/
theorem frameRun_hashes_sublist {bound : Unstable.BoundFn} {sg sg' : State × List Block}
    {ops : List Op} (hr : FrameRun bound sg ops sg') :
    Inv2 sg.1 sg.2 → sg'.2 = sg.2 → (treeHashes sg.1).Sublist (treeHashes sg'.1) := by
  induction hr with
  | nil sg => intro _ _; exact List.Sublist.refl _
  | frame sg s1 ops sg2 hfr _ ih =>
    intro h2 hg
    have := ih (inv2_frame hfr h2) hg
    simp only [treeHashes] at this ⊢
    rw [← hfr.unstable]
    exact this
  | op sg o sg1 ops sg2 hd hs hrest ih =>
    intro h2 hg
    have p1 : sg.2 <+: sg1.2 := step2_ghost_prefix bound sg.1 sg.2 o sg1.1 sg1.2 hs
    have p2 : sg1.2 <+: sg2.2 := frameRun_ghost_prefix hrest
    have e1 : sg1.2 = sg.2 := prefix_antisymm p1 p2 hg
    have h21 : Inv2 sg1.1 sg1.2 := step2_preserves_inv2 bound sg.1 sg.2 o sg1.1 sg1.2 h2 hd hs
    have hs' : step2 bound (sg.1, sg.2) o = some (sg1.1, sg.2) := by
      have e : (sg1.1, sg.2) = sg1 := by rw [← e1]
      rw [e]; exact hs
    exact (step2_hashes_sublist bound h2 o sg1.1 hs').trans (ih h21 (hg.trans e1.symm))

/-! ## 5. The header store at the stable heights -/

theorem root_mem_blocks {α : Type} (t : Tree α) : t.root ∈ t.blocks := by
  cases t with
  | node r cs => simp [Tree.blocks, Tree.root]

/-- the stable height is the length of the ghost, paused or not -/
theorem inv2_nextHeight {s : State} {G : List Block} (h2 : Inv2 s G) :
    s.utxos.nextHeight = G.length := by
  rcases h2 with hA | ⟨s0, A, B, hA, hP⟩
  · exact hA.invU.inv.heightEq
  · rw [hP.nextHeight]; exact hA.invU.inv.heightEq

/-- **the header store maps every stable height to the hash of the ghost block of that height**,
    paused or not (while a block is partially ingested the store already holds that block's header
    at the next height; the heights below are untouched) -/
theorem inv2_headers {s : State} {G : List Block} (h2 : Inv2 s G) (i : Nat) (hi : i < G.length) :
    AList.find? s.headers.byHeight i = some (G[i]).hash := by
  rcases h2 with hA | ⟨s0, A, B, hA, hP⟩
  · exact hA.invU.inv.headers i hi
  · have hh : s.headers = s0.headers.insert A.blk G.length := by
      have := congrArg State.headers hP.base.eq
      exact this
    rw [hh]
    show AList.find? (AList.insert s0.headers.byHeight G.length A.blk.hash) i = _
    rw [AList.find?_insert_ne _ _ _ _ (by omega)]
    exact hA.invU.inv.headers i hi

/-- … and stores the header of every ghost block under its hash -/
theorem inv2_headersByHash {s : State} {G : List Block} (h2 : Inv2 s G) (g : Block) (hg : g ∈ G) :
    AList.find? s.headers.byHash g.hash = some ⟨g.hash, g.prev, g.time, g.bits, g.header⟩ := by
  rcases h2 with hA | ⟨s0, A, B, hA, hP⟩
  · exact hA.invU.inv.headersByHash g hg
  · have hh : s.headers = s0.headers.insert A.blk G.length := by
      have := congrArg State.headers hP.base.eq
      exact this
    have hne : A.blk.hash ≠ g.hash := by
      have hnd := hA.invU.inv.hashesNodup
      rw [List.map_append, List.nodup_append] at hnd
      have hA' : A.blk.hash ∈ (s0.unstable.tree.blocks.map (·.blk)).map (·.hash) := by
        rw [← hP.base.anchor]
        exact List.mem_map_of_mem (List.mem_map_of_mem (root_mem_blocks _))
      exact fun e => hnd.2.2 g.hash (List.mem_map_of_mem hg) A.blk.hash hA' e.symm
    rw [hh]
    show AList.find? (AList.insert s0.headers.byHash A.blk.hash _) g.hash = _
    rw [AList.find?_insert_ne _ _ _ _ hne]
    exact hA.invU.inv.headersByHash g hg

/-! ## 6. Schedules -/

theorem run_ghost_prefix : ∀ (msgs : List (Env × Msg)) (c : Cfg), TrustedRun c msgs →
    c.2 <+: (run c msgs).2
  | [], _, _ => List.prefix_refl _
  | (env, m) :: rest, c, ht =>
    (Props.FullSys.ghost_grows env c m ht.1).trans (run_ghost_prefix rest (stepMsg env c m) ht.2)

/-- if a schedule does not extend the ghost, none of its messages does -/
theorem run_ghost_fixed {env : Env} {m : Msg} {rest : List (Env × Msg)} {c : Cfg}
    (ht : TrustedRun c ((env, m) :: rest)) (hg : (run c ((env, m) :: rest)).2 = c.2) :
    (stepMsg env c m).2 = c.2 ∧ (run (stepMsg env c m) rest).2 = (stepMsg env c m).2 := by
  have p1 := Props.FullSys.ghost_grows env c m ht.1
  have p2 := run_ghost_prefix rest (stepMsg env c m) ht.2
  have e1 : (stepMsg env c m).2 = c.2 := prefix_antisymm p1 p2 hg
  exact ⟨e1, by rw [e1]; exact hg⟩

end Btc.Lemmas.FullCor
