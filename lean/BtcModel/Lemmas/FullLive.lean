import BtcModel.Props.FullSys
import BtcModel.Props.C13Live

/-!
  Helper definitions and lemmas for the liveness of the fetch protocol on the *message-level*
  system of `Spec/FullSys.lean` (`Props/C13Full.lean`):

  * `Stuck`: finding F13 as a predicate on states (a block is partially ingested and its anchor is
    no longer stable); it is the conclusion of `heartbeat_trap_is_F13`, and a stuck canister never
    gets past ingestion again (`stuck_heartbeat`);
  * `effective_eq_quiet`: in a reachable configuration, under the environment assumption, the
    heartbeat is effective iff ingestion has nothing to do;
  * `settles_of_reachable`: ingestion settles within `treeWork + 1` heartbeats in every reachable
    configuration that is not stuck;
  * schedules of messages (`hbsM`, `actsOf`, `traceM`) and their relation to the schedules of
    `Spec.Fetch` (`run_fst_eq`, `traceM_eq`);
  * the pieces of the recovering continuation at the message level (`settle_full`, `idle_full`,
    `process_full`).
-/
namespace Btc.Lemmas.FullLive
open Btc Btc.State Btc.Spec Btc.Spec.Full Btc.Lemmas.Reach Btc.Lemmas.Reach2 Btc.Lemmas.Fetch
open Btc.Lemmas.FullSys Btc.Lemmas.FetchLive Btc.Props

/-! ### Finding F13 as a predicate -/

/-- **Finding F13**: a block is partially ingested, and the anchor of the unstable blocks is not
    stable (any more) for the depth bound `bound`: `pop` will return `None` when the block is
    finished, and `pop_block` panics. -/
def Stuck (bound : Unstable.BoundFn) (s : State) : Prop :=
  Paused s ∧ Unstable.peek bound s.unstable = none

instance (bound : Unstable.BoundFn) (s : State) : Decidable (Stuck bound s) := by
  unfold Stuck Paused; exact inferInstance

theorem stuck_frame {bound : Unstable.BoundFn} {s s' : State} (hf : Frame s s') :
    Stuck bound s' ↔ Stuck bound s := by
  unfold Stuck; rw [paused_frame hf, hf.unstable]

/-- a paused copy of `s0` that is not stuck is what the call on `s0` returns with the budget spent
    so far -/
theorem paused_start (bound : Unstable.BoundFn) {s0 s : State} {G : List Block} {A : CBlock}
    {B : Nat} (hA : InvAll s0 G) (hP : PausedAt' s0 s G A B)
    (hpeek : Unstable.peek bound s0.unstable ≠ none) : s0.ingestStable bound B = .paused s := by
  cases hp : Unstable.peek bound s0.unstable with
  | none => exact absurd hp hpeek
  | some anchor =>
    have hI := hA.invU.inv
    obtain ⟨_, _, hanchor⟩ := InvIngest.peek_eq bound s0.unstable anchor hp
    have hAa : anchor = A := hanchor.trans hP.base.anchor
    subst hAa
    have hround := hP.round
    have hs := hP.state_eq
    generalize s.utxos = u at hs hround
    subst hs
    rw [C08.ingestStable_eq_loop bound s0 G B hI,
      C08.ingestNewStable_paused_step _ _ _ _ _ _ u hp hround]

/-- a stuck state: no call of `ingest_stable_blocks_into_utxoset` ever finishes -/
theorem stuck_ingest (bound : Unstable.BoundFn) {s0 s : State} {G : List Block} {A : CBlock}
    {B : Nat} (hA : InvAll s0 G) (hP : PausedAt' s0 s G A B)
    (hpeek : Unstable.peek bound s0.unstable = none) (b : Nat) :
    (∃ u2, s.ingestStable bound b = .paused { s with utxos := u2 } ∧
      ∃ B', PausedAt' s0 { s with utxos := u2 } G A B') ∨
    (∃ m, s.ingestStable bound b = .trap m) := by
  rcases resume_cases bound hA hP b with ⟨u2, h1, h2, h3⟩ | ⟨m, h1⟩ | h1
  · exact Or.inl ⟨u2, h1, B + b, C08.pausedAt_next hP.base b u2 h3, h2⟩
  · exact Or.inr ⟨m, h1⟩
  · exfalso
    have hq : s0.ingestStable bound (B + b) = .done s0 false := by
      rw [C08.ingestStable_eq_loop bound s0 G (B + b) hA.invU.inv,
        C08.ingestNewStable_none _ _ _ _ _ hpeek]
    rw [hq] at h1
    have := (ingestStable_done_false' h1).2
    obtain ⟨ing, hi, _⟩ := hP.ingesting
    rw [hi] at this; cases this

/-! ### `effective` = `quiet` in reachable configurations -/

theorem quiet_not_paused {env : Env} {b : Nat} {s : State} (h : quiet env b s = true) : ¬ Paused s := by
  have := (ingestStable_done_false' ((quiet_iff env b s).mp h)).2
  simp [Paused, this]

theorem quiet_eq_pastIngestion (env : Env) (b : Nat) (s : State) :
    quiet env b s = pastIngestion env s b := rfl

variable {sys : Fetch.Sys} {G : List Block}

/-- **In a reachable configuration, under the environment assumption, "effective" is "ingestion
    has nothing to do"**: a heartbeat that gets past the ingestion part does not trap
    (`heartbeat_never_traps_unpaused`). -/
theorem effective_eq_quiet (hr : FullReachable sys G) (env : Env) (b : Nat)
    (ht : Trusted env (sys, G) (.heartbeat b)) : effective env sys.st b = quiet env b sys.st := by
  cases hq : quiet env b sys.st with
  | false =>
    cases he : effective env sys.st b with
    | false => rfl
    | true => rw [(quiet_iff env b _).mpr (effective_quiet he)] at hq; cases hq
  | true =>
    have hnt := FullSys.heartbeat_never_traps_unpaused hr (quiet_not_paused hq) env b ht
    have hi := (quiet_iff env b _).mp hq
    unfold effective
    rcases heartbeatStart_cases env sys.st b with h | ⟨s', p, h, hc⟩ | ⟨_, _, req, _, h⟩ |
        ⟨_, _, _, s', _, h⟩
    · exact absurd h hnt
    · rcases hc with ⟨_, hc⟩ | ⟨_, hc⟩ <;> rw [hi] at hc <;> cases hc
    · rw [h]
    · rw [h]

/-! ### Ingestion settles in every reachable configuration that is not stuck -/

theorem treeWork_congr {s s' : State} (h : s.unstable = s'.unstable) : treeWork s = treeWork s' := by
  unfold treeWork; rw [h]

/-- **Ingestion settles**: in a reachable configuration that is not stuck, heartbeats with any
    budget `b ≥ 1` bring ingestion to rest within `treeWork + 1` rounds (none of them traps). -/
theorem settles_of_reachable (hr : FullReachable sys G) (env : Env) (b : Nat) (hb : 1 ≤ b)
    (hns : ¬ Stuck env.bound sys.st) :
    ∃ n, n ≤ treeWork sys.st + 1 ∧ settles env b n sys.st = true := by
  rcases fullReachable_inv2 hr with hA | ⟨s0, A, B, hA, hP⟩
  · exact settles_inv env b hb sys.st G hA.invU.inv
  · have hpeek : Unstable.peek env.bound s0.unstable ≠ none := by
      intro h
      exact hns ⟨hP.paused, by rw [hP.unstable]; exact h⟩
    obtain ⟨n, hn, hs⟩ := settles_paused env b hb s0 G hA.invU.inv (treeWork s0) B sys.st (by omega)
      (paused_start env.bound hA hP hpeek)
    exact ⟨n, by rw [treeWork_congr hP.unstable]; omega, hs⟩

/-! ### Schedules of messages -/

/-- `n` heartbeats in environment `env` with budget `b` -/
def hbsM (env : Env) (b : Nat) (n : Nat) : List (Env × Msg) := List.replicate n (env, Msg.heartbeat b)

theorem hbsM_length (env : Env) (b n : Nat) : (hbsM env b n).length = n := by simp [hbsM]

/-- the request (if any) a message sends to the block source -/
def issuedM (env : Env) (sys : Fetch.Sys) (m : Msg) : Option Request :=
  Fetch.issued env sys (Msg.action m)

/-- the requests sent to the block source during a schedule of messages, in order -/
def traceM (c : Cfg) : List (Env × Msg) → List Request
  | [] => []
  | (env, m) :: rest => (issuedM env c.1 m).toList ++ traceM (stepMsg env c m) rest

theorem traceM_append (c : Cfg) (l1 l2 : List (Env × Msg)) :
    traceM c (l1 ++ l2) = traceM c l1 ++ traceM (run c l1) l2 := by
  induction l1 generalizing c with
  | nil => rfl
  | cons em rest ih =>
    obtain ⟨env, m⟩ := em
    simp only [List.cons_append, traceM, run, ih, List.append_assoc]

def isCall : Msg → Bool
  | .call _ => true
  | _ => false

/-- the schedule of `Spec.Fetch` a schedule of messages amounts to (endpoint calls become the
    silent action `query`: this is exact only when there are none, see `run_fst_eq`) -/
def actsOf (msgs : List (Env × Msg)) : List (Env × Fetch.Action) :=
  msgs.map (fun em => (em.1, Msg.action em.2))

theorem actsOf_append (l1 l2 : List (Env × Msg)) : actsOf (l1 ++ l2) = actsOf l1 ++ actsOf l2 := by
  simp [actsOf]

theorem actsOf_hbsM (env : Env) (b n : Nat) : actsOf (hbsM env b n) = hbs env b n := by
  simp [actsOf, hbsM, hbs, Msg.action]

theorem stepSys_eq (env : Env) (sys : Fetch.Sys) (m : Msg) (h : isCall m = false) :
    stepSys env sys m = Fetch.step env sys (Msg.action m) := by
  cases m with
  | call c => cases h
  | heartbeat _ => rfl
  | reply _ => rfl
  | upgrade _ => rfl
  | setConfig _ => rfl

/-- without endpoint calls the canister part of a run is the run of `Spec.Fetch` -/
theorem run_fst_eq : ∀ (msgs : List (Env × Msg)) (c : Cfg), (∀ em ∈ msgs, isCall em.2 = false) →
    (run c msgs).1 = Fetch.run c.1 (actsOf msgs)
  | [], _, _ => rfl
  | (env, m) :: rest, c, h => by
    have h1 := h (env, m) List.mem_cons_self
    simp only [run, actsOf, List.map_cons, Fetch.run]
    rw [← stepSys_eq env c.1 m h1]
    exact run_fst_eq rest (stepMsg env c m) (fun em hem => h em (List.mem_cons_of_mem _ hem))

theorem traceM_eq : ∀ (msgs : List (Env × Msg)) (c : Cfg), (∀ em ∈ msgs, isCall em.2 = false) →
    traceM c msgs = Fetch.trace c.1 (actsOf msgs)
  | [], _, _ => rfl
  | (env, m) :: rest, c, h => by
    have h1 := h (env, m) List.mem_cons_self
    simp only [traceM, actsOf, List.map_cons, Fetch.trace, issuedM]
    rw [← stepSys_eq env c.1 m h1]
    congr 1
    exact traceM_eq rest (stepMsg env c m) (fun em hem => h em (List.mem_cons_of_mem _ hem))

theorem hbsM_noCalls (env : Env) (b n : Nat) : ∀ em ∈ hbsM env b n, isCall em.2 = false := by
  intro em h
  rw [hbsM, List.mem_replicate] at h
  rw [h.2]; rfl

/-! ### The ingestion rounds at the message level -/

/-- a heartbeat whose ingestion round does something looks at no delivered data -/
theorem trusted_of_not_quiet {env : Env} {c : Cfg} {b : Nat} (h : quiet env b c.1.st = false) :
    Trusted env c (.heartbeat b) := by
  intro hp
  rw [← quiet_eq_pastIngestion, h] at hp
  cases hp

/-- a heartbeat in a state without a complete response looks at no delivered data -/
theorem trusted_of_not_complete {env : Env} {c : Cfg} {b : Nat}
    (h : ∀ r, c.1.st.syncing.response ≠ some (.complete r)) : Trusted env c (.heartbeat b) := by
  intro _ r hr
  exact absurd hr (h r)

theorem settles_succ_not_quiet {env : Env} {b n : Nat} {s : State}
    (h : settles env b (n + 1) s = true) : quiet env b s = false := by
  unfold settles at h
  unfold quiet
  cases hi : s.ingestStable env.bound b with
  | paused s' => rfl
  | trap m => rfl
  | done s' w =>
    rw [hi] at h
    cases w with
    | true => rfl
    | false => cases h

theorem settles_succ_step {env : Env} {b n : Nat} {c : Cfg}
    (h : settles env b (n + 1) c.1.st = true) :
    (stepMsg env c (.heartbeat b)).1 = ⟨ingestOnce env b c.1.st, c.1.pending⟩ ∧
    settles env b n (ingestOnce env b c.1.st) = true := by
  unfold settles at h
  simp only [stepMsg, stepSys, Fetch.step, heartbeatStart_eq, ingestOnce]
  cases hi : c.1.st.ingestStable env.bound b with
  | paused s' => rw [hi] at h; exact ⟨rfl, h⟩
  | trap m => rw [hi] at h; cases h
  | done s' w =>
    rw [hi] at h
    cases w with
    | true => exact ⟨rfl, h⟩
    | false => cases h

/-- **the ingestion rounds as a schedule of messages**: all of them satisfy the environment
    assumption (no delivered data is looked at), only the canister state and the ghost change,
    nothing is sent -/
theorem settle_full (env : Env) (b : Nat) : ∀ (n : Nat) (c : Cfg), settles env b n c.1.st = true →
    TrustedRun c (hbsM env b n) ∧
    (run c (hbsM env b n)).1 = ⟨settled env b n c.1.st, c.1.pending⟩ ∧
    traceM c (hbsM env b n) = []
  | 0, _, _ => ⟨trivial, rfl, rfl⟩
  | n + 1, c, h => by
    obtain ⟨h1, h2⟩ := settles_succ_step (c := c) h
    have hq := settles_succ_not_quiet h
    obtain ⟨i1, i2, i3⟩ := settle_full env b n (stepMsg env c (.heartbeat b)) (by rw [h1]; exact h2)
    have hiss : issuedM env c.1 (.heartbeat b) = none := by
      have := (run_settle env b (n + 1) c.1.st c.1.pending h).2
      rw [hbs_succ] at this
      exact (trace_cons_nil this).1
    refine ⟨⟨trusted_of_not_quiet hq, i1⟩, ?_, ?_⟩
    · show (run (stepMsg env c (.heartbeat b)) (hbsM env b n)).1 = _
      rw [i2, h1]; rfl
    · show (issuedM env c.1 (.heartbeat b)).toList ++ traceM (stepMsg env c (.heartbeat b)) (hbsM env b n) = []
      rw [hiss, i3]; rfl

theorem hbsM_succ' (env : Env) (b n : Nat) :
    hbsM env b (n + 1) = hbsM env b n ++ [(env, Msg.heartbeat b)] := by
  simp [hbsM, List.replicate_succ']

theorem sys_eta (x : Fetch.Sys) : x = ⟨x.st, x.pending⟩ := rfl

/-- **idle, syncing on, no complete response stored**: after the `n` ingestion rounds the next
    heartbeat sends the request the stored response calls for; the whole schedule satisfies the
    environment assumption by itself -/
theorem idle_full {env : Env} {b n : Nat} {c : Cfg} (hr : FullReachable c.1 c.2)
    (hp : c.1.pending = none) (hs : c.1.st.syncing.syncing = true)
    (hn : settles env b n c.1.st = true)
    (hc : ∀ r, c.1.st.syncing.response ≠ some (.complete r)) :
    TrustedRun c (hbsM env b (n + 1)) ∧
    ∃ req, traceM c (hbsM env b (n + 1)) = [req] ∧
      (run c (hbsM env b (n + 1))).1 =
        ⟨{ settled env b n c.1.st with syncing := { c.1.st.syncing with isFetching := true } }, some req⟩ ∧
      match c.1.st.syncing.response with
      | none => ∃ anchor rest, req = .initial anchor rest ∧
          anchor :: rest = (settled env b n c.1.st).unstable.tree.blocks.map CBlock.hash
      | some (.partial_ _ k) => req = .followUp k
      | some (.complete _) => False := by
  obtain ⟨t1, r1, _⟩ := settle_full env b n c hn
  have hsy := settled_syncing env b n c.1.st
  refine ⟨?_, ?_⟩
  · rw [hbsM_succ', trustedRun_append]
    refine ⟨t1, ?_, trivial⟩
    apply trusted_of_not_complete
    rw [r1]; dsimp only; rw [hsy]; exact hc
  · obtain ⟨req, h1, h2, h3⟩ := settle_ready (env := env) (b := b) (n := n)
      (FullSys.fetch_invariant hr).1 hp hs hn hc
    refine ⟨req, ?_, ?_, h3⟩
    · rw [traceM_eq _ _ (hbsM_noCalls env b (n + 1)), actsOf_hbsM]; exact h1
    · rw [run_fst_eq _ _ (hbsM_noCalls env b (n + 1)), actsOf_hbsM]; exact h2

/-- the processing heartbeat leaves no block partially ingested -/
theorem afterProcess_not_paused {env : Env} {b : Nat} {s : State} (hq : quiet env b s = true) :
    ¬ Paused (afterProcess env b s) := by
  have hni := (ingestStable_done_false' ((quiet_iff env b s).mp hq)).2
  unfold afterProcess
  rcases heartbeatStart_cases env s b with h | ⟨s', p, h, _⟩ | ⟨_, _, req, _, h⟩ | ⟨_, _, _, s', hf, h⟩
  · rw [h]; simp [Paused, hni]
  · rw [h]; simp [Paused, hni]
  · rw [h]; simp [Paused, hni]
  · rw [h]
    dsimp only
    have hu : s'.utxos = s.utxos := by
      unfold finish at hf
      cases hp : processResponse env s with
      | none => rw [hp] at hf; cases hf
      | some s2 =>
        rw [hp] at hf
        have h2 : s2.utxos = s.utxos := by
          unfold processResponse at hp
          split at hp
          · dsimp only at hp
            split at hp
            · cases hp
            · rename_i hb
              cases hp
              have := processBlocks_utxos env _ _ _ _ hb
              exact this
            · rename_i hb
              rw [(insertNextHeaders_tree _ _ _ _ hp).2]
              have := processBlocks_utxos env _ _ _ _ hb
              exact this
          · cases hp; rfl
        simp only at hf
        split at hf
        · cases hf; exact h2
        · split at hf
          · cases hf
          · rename_i s3 p hfp
            cases hf
            rw [feePercentiles_eq hfp]; exact h2
    simp [Paused, hu, hni]

/-- **idle with a complete response stored**: after the `n` ingestion rounds the next heartbeat —
    the only one of the schedule that looks at the delivered data — processes the response and
    sends nothing; no block is partially ingested afterwards -/
theorem process_full {env : Env} {b n : Nat} {c : Cfg} {r : CompleteResp}
    (hr : FullReachable c.1 c.2) (hp : c.1.pending = none)
    (hn : settles env b n c.1.st = true)
    (hresp : c.1.st.syncing.response = some (.complete r))
    (ht : Trusted env (run c (hbsM env b n)) (.heartbeat b)) :
    TrustedRun c (hbsM env b (n + 1)) ∧
    traceM c (hbsM env b (n + 1)) = [] ∧
    (run c (hbsM env b (n + 1))).1 = ⟨afterProcess env b (settled env b n c.1.st), none⟩ ∧
    effective env (settled env b n c.1.st) b = true ∧
    (afterProcess env b (settled env b n c.1.st)).syncing.response = none ∧
    (afterProcess env b (settled env b n c.1.st)).syncing.syncing = c.1.st.syncing.syncing ∧
    ¬ Paused (afterProcess env b (settled env b n c.1.st)) := by
  obtain ⟨t1, r1, _⟩ := settle_full env b n c hn
  have hq := settles_quiet env b n c.1.st hn
  have hr2 : FullReachable (run c (hbsM env b n)).1 (run c (hbsM env b n)).2 :=
    run_reachable _ c hr t1
  have he : effective env (settled env b n c.1.st) b = true := by
    have := effective_eq_quiet hr2 env b ht
    rw [r1] at this
    rw [this]; exact hq
  obtain ⟨h1, h2, h3, h4, _⟩ := settle_process (env := env) (b := b) (n := n) hp hn hresp he
  refine ⟨?_, ?_, ?_, he, h3, h4, afterProcess_not_paused hq⟩
  · rw [hbsM_succ', trustedRun_append]
    exact ⟨t1, ht, trivial⟩
  · rw [traceM_eq _ _ (hbsM_noCalls env b (n + 1)), actsOf_hbsM]; exact h1
  · rw [run_fst_eq _ _ (hbsM_noCalls env b (n + 1)), actsOf_hbsM]; exact h2

/-! ### What keeps a configuration non-stuck -/

/-- an ingestion call that pauses, from a state satisfying the invariant: the paused state is not
    stuck (for the same depth bound) -/
theorem paused_not_stuck (bound : Unstable.BoundFn) {s0 sp : State} {G : List Block} {B : Nat}
    (hA : InvAll s0 G) (h : s0.ingestStable bound B = .paused sp) :
    Unstable.peek bound sp.unstable ≠ none := by
  intro hk
  obtain ⟨sk, A, B', hAk, hPk⟩ := ingest_paused_all bound B hA h
  have hk' : Unstable.peek bound sk.unstable = none := by rw [← hPk.unstable]; exact hk
  have hres := C08.ingestStable_pause_resume bound s0 G B sp hA.invU.inv h (treeWork s0)
  have hcl := ingestStable_class bound s0 G (B + treeWork s0) hA.invU.inv
  rcases stuck_ingest bound hAk hPk hk' (treeWork s0) with ⟨u2, h1, _⟩ | ⟨m, h1⟩
  · rw [h1] at hres
    rw [← hres] at hcl
    dsimp only at hcl
    omega
  · rw [h1] at hres
    rw [← hres] at hcl
    exact hcl

/-- one ingestion call from a state that is not stuck leaves a state that is not stuck -/
theorem ingest_not_stuck (bound : Unstable.BoundFn) {s : State} {G : List Block} (h2 : Inv2 s G)
    (hns : ¬ Stuck bound s) (b : Nat) :
    match s.ingestStable bound b with
    | .paused s' => ¬ Stuck bound s'
    | .done s' _ => ¬ Stuck bound s'
    | .trap _ => True := by
  have clean : ∀ {s0 : State} {G : List Block} (B : Nat), InvAll s0 G →
      match s0.ingestStable bound B with
      | .paused s' => ¬ Stuck bound s'
      | .done s' _ => ¬ Stuck bound s'
      | .trap _ => True := by
    intro s0 G B hA
    cases hi : s0.ingestStable bound B with
    | trap m => trivial
    | paused sp => exact fun hst => paused_not_stuck bound hA hi hst.2
    | done s' w => exact fun hst => (ingest_done_all bound B hA hi).not_paused hst.1
  rcases h2 with hA | ⟨s0, A, B, hA, hP⟩
  · exact clean b hA
  · rcases resume_cases bound hA hP b with ⟨u2, h1, _, _⟩ | ⟨m, h1⟩ | h1
    · rw [h1]
      exact fun hst => hns ⟨hP.paused, hst.2⟩
    · rw [h1]; trivial
    · rw [h1]; exact clean (B + b) hA

theorem setConfig_unstable (s : State) (c : SetConfig) (h : c.stabilityThreshold = none) :
    (s.setConfig c).unstable = s.unstable := by
  rcases c with ⟨_ | _, _ | _, _ | _, _ | _, _ | _, _ | _⟩ <;> first | rfl | cases h

theorem peek_none_upgraded (bound : Unstable.BoundFn) (s : State) :
    Unstable.peek bound (upgraded s).unstable = none ↔ Unstable.peek bound s.unstable = none := by
  have h : Unstable.stableChildIdx bound (upgraded s).unstable =
      Unstable.stableChildIdx bound s.unstable := C09.stableChildIdx_clear bound s.unstable
  unfold Unstable.peek
  rw [h]
  cases Unstable.stableChildIdx bound s.unstable <;> simp

/-! ### `treeWork` along ingestion and block acceptance -/

open Btc.UtxoSet (blockWork)

/-- the work of an ingestion result's tree -/
def resWork : IngestResult → Nat
  | .paused s => treeWork s
  | .done s _ => treeWork s
  | .trap _ => 0

theorem ingestNewStable_treeWork (bound : Unstable.BoundFn) :
    ∀ (fuel : Nat) (s : State) (b : Nat) (w : Bool),
      resWork (ingestNewStable bound fuel s b w) ≤ treeWork s
  | 0, s, b, w => Nat.le_refl _
  | fuel + 1, s, b, w => by
    unfold ingestNewStable
    cases Unstable.peek bound s.unstable with
    | none => exact Nat.le_refl _
    | some anchor =>
      dsimp only
      cases ({ s with headers := s.headers.insert anchor.blk s.utxos.nextHeight } : State).utxos.ingestBlock
          anchor.blk b with
      | trap m => exact Nat.zero_le _
      | paused u => exact Nat.le_refl _
      | done u budget' =>
        dsimp only
        cases hp : popBlock bound
            { s with headers := s.headers.insert anchor.blk s.utxos.nextHeight, utxos := u }
            anchor.blk.hash with
        | none => exact Nat.zero_le _
        | some s2 =>
          dsimp only
          have h1 := ingestNewStable_treeWork bound fuel s2 budget' true
          have h2 := treeWork_pop hp
          have h3 : treeWork ({ s with headers := s.headers.insert anchor.blk s.utxos.nextHeight, utxos := u } : State) =
              treeWork s := rfl
          omega

/-- ingestion only removes blocks from the tree of unstable blocks -/
theorem ingestStable_treeWork (bound : Unstable.BoundFn) (s : State) (b : Nat) :
    resWork (ingestStable bound s b) ≤ treeWork s := by
  unfold ingestStable
  dsimp only
  cases s.utxos.ingestContinue b with
  | none => exact ingestNewStable_treeWork bound _ s b false
  | some r =>
    cases r with
    | trap m => exact Nat.zero_le _
    | paused u => exact Nat.le_refl _
    | done u budget' =>
      dsimp only
      cases hp : popBlock bound { s with utxos := u }
          (match s.utxos.ingesting with | some ing => ing.block.hash | none => 0) with
      | none => exact Nat.zero_le _
      | some s2 =>
        dsimp only
        have h1 := ingestNewStable_treeWork bound (s.unstable.tree.blocksCount + 1) s2 budget' true
        have h2 := treeWork_pop hp
        have h3 : treeWork ({ s with utxos := u } : State) = treeWork s := rfl
        omega

theorem ingestOnce_treeWork (env : Env) (b : Nat) (s : State) :
    treeWork (ingestOnce env b s) ≤ treeWork s := by
  have := ingestStable_treeWork env.bound s b
  unfold ingestOnce
  cases hi : s.ingestStable env.bound b with
  | paused s' => rw [hi] at this; exact this
  | trap m => exact Nat.le_refl _
  | done s' w =>
    rw [hi] at this
    cases w with
    | true => exact this
    | false => exact Nat.le_refl _

/-- the ingestion rounds do not add work -/
theorem settled_treeWork (env : Env) (b : Nat) : ∀ (n : Nat) (s : State),
    treeWork (settled env b n s) ≤ treeWork s
  | 0, _ => Nat.le_refl _
  | n + 1, s => Nat.le_trans (settled_treeWork env b n _) (ingestOnce_treeWork env b s)

/-- accepted blocks add exactly their own work -/
theorem acceptAll_treeWork (env : Env) : ∀ (blocks : List Block) (s sEnd : State),
    C10.acceptAll env s blocks = some sEnd →
    treeWork sEnd = treeWork s + (blocks.map (fun b => blockWork b)).sum
  | [], s, sEnd, h => by
    simp only [C10.acceptAll, Option.some.injEq] at h
    subst h; simp
  | b :: bs, s, sEnd, h => by
    simp only [C10.acceptAll] at h
    split at h
    · rename_i s' hs'
      obtain ⟨_, _, c, hcb, _, _, hperm, _⟩ := C10.accepted_is_visible env s s' b hs'
      have h1 := acceptAll_treeWork env bs s' sEnd h
      have h2 : treeWork s' = blockWork b + treeWork s := by
        unfold treeWork
        rw [(hperm.map (fun c : CBlock => blockWork c.blk)).sum_nat]
        simp only [List.map_cons, List.sum_cons, hcb]
      simp only [List.map_cons, List.sum_cons]
      omega
    · cases h

/-- the work of the blocks of the stored complete response that will be accepted in state `s` -/
def respWork (env : Env) (s : State) : Nat :=
  match s.syncing.response with
  | some (.complete r) =>
    ((acceptedBlocks env { s with syncing := { s.syncing with response := none } } r.blocks).map
      (fun b => blockWork b)).sum
  | _ => 0

end Btc.Lemmas.FullLive
