import BtcModel.Lemmas.Levels
import BtcModel.Gen.Constants

/-!
# Independent specifications (audit follow-up) — definitions and helper lemmas

Definitions that do **not** share code with the model:

* C02: `weight`/`key` (via `List.sum`), the order `KeyLt`/`KeyLe` on keys, the predicate
  `IsFirstMax` ("first maximal element of a list") and the inductive `RootToLeaf`.
* C03: `roundHalfUp`, `depthBoundSpec` – the exact (integer) value of
  `round(max − n·(max − min)/MAX_UNSTABLE_BLOCKS)`.

The property theorems are in `BtcModel/Props/SpecsExtra.lean`.
-/
namespace Btc.Props.SpecsExtra
open Btc Btc.Tree Btc.Spec

variable {α : Type}

/-! ## C02 — keys of paths, stated with `List.sum` and plain `<` on `Nat` -/

/-- accumulated difficulty of a path -/
def weight (d : α → Nat) (p : List α) : Nat := (p.map d).sum

/-- the key by which branches are compared: `(Σ difficulty, number of blocks)` -/
def key (d : α → Nat) (p : List α) : Nat × Nat := (weight d p, p.length)

/-- strict lexicographic order on keys -/
def KeyLt (a b : Nat × Nat) : Prop := a.1 < b.1 ∨ (a.1 = b.1 ∧ a.2 < b.2)

/-- lexicographic order on keys -/
def KeyLe (a b : Nat × Nat) : Prop := a.1 < b.1 ∨ (a.1 = b.1 ∧ a.2 ≤ b.2)

instance (a b : Nat × Nat) : Decidable (KeyLt a b) := by unfold KeyLt; exact inferInstance
instance (a b : Nat × Nat) : Decidable (KeyLe a b) := by unfold KeyLe; exact inferInstance

theorem keyLe_iff_lt_or_eq (a b : Nat × Nat) : KeyLe a b ↔ KeyLt a b ∨ a = b := by
  obtain ⟨a1, a2⟩ := a
  obtain ⟨b1, b2⟩ := b
  simp only [KeyLe, KeyLt, Prod.mk.injEq]
  omega

theorem keyLe_iff_not_lt (a b : Nat × Nat) : KeyLe a b ↔ ¬ KeyLt b a := by
  simp only [KeyLe, KeyLt]; omega

theorem keyLe_refl (a : Nat × Nat) : KeyLe a a := by simp [KeyLe]

theorem keyLe_trans {a b c : Nat × Nat} (h1 : KeyLe a b) (h2 : KeyLe b c) : KeyLe a c := by
  simp only [KeyLe] at *; omega

theorem keyLe_total (a b : Nat × Nat) : KeyLe a b ∨ KeyLe b a := by
  simp only [KeyLe]; omega

theorem keyLe_antisymm {a b : Nat × Nat} (h1 : KeyLe a b) (h2 : KeyLe b a) : a = b := by
  obtain ⟨a1, a2⟩ := a
  obtain ⟨b1, b2⟩ := b
  simp only [KeyLe, Prod.mk.injEq] at *
  omega

theorem keyLt_of_lt_of_le {a b c : Nat × Nat} (h1 : KeyLt a b) (h2 : KeyLe b c) : KeyLt a c := by
  simp only [KeyLe, KeyLt] at *; omega

theorem keyLt_of_le_of_lt {a b c : Nat × Nat} (h1 : KeyLe a b) (h2 : KeyLt b c) : KeyLt a c := by
  simp only [KeyLe, KeyLt] at *; omega

theorem keyLt_irrefl (a : Nat × Nat) : ¬ KeyLt a a := by simp [KeyLt]

/-- `sumD` (left fold, as in `Spec.pathKey`) is the plain sum -/
theorem sumD_eq_weight (d : α → Nat) (p : List α) : sumD d p = weight d p := by
  induction p with
  | nil => rfl
  | cons x xs ih => rw [sumD_cons, ih]; simp [weight]

theorem pathKey_eq_key (d : α → Nat) (p : List α) : pathKey d p = key d p := by
  rw [pathKey_eq, sumD_eq_weight]; rfl

theorem better_true_iff (d : α → Nat) (p q : List α) :
    better d p q = true ↔ KeyLt (key d q) (key d p) := by
  rw [better_iff, sumD_eq_weight, sumD_eq_weight]
  simp only [KeyLt, key]
  omega

theorem better_false_iff (d : α → Nat) (p q : List α) :
    better d p q = false ↔ KeyLe (key d p) (key d q) := by
  rw [keyLe_iff_not_lt, ← better_true_iff]
  cases better d p q <;> simp

/-- `m` is the **first maximal** element of `L` w.r.t. the key: everything before it is strictly
    smaller, everything after it is not greater. -/
def IsFirstMax (d : α → Nat) (L : List (List α)) (m : List α) : Prop :=
  ∃ pre post, L = pre ++ m :: post ∧
    (∀ p ∈ pre, KeyLt (key d p) (key d m)) ∧ (∀ p ∈ post, KeyLe (key d p) (key d m))

/-- the scan `firstMax` either keeps its accumulator (nothing in the list beats it) or returns
    the first element of the list that beats the accumulator and everything before it, and is not
    beaten by anything after it -/
theorem firstMax_scan (d : α → Nat) (L : List (List α)) (acc : List α) :
    (firstMax d L acc = acc ∧ ∀ p ∈ L, KeyLe (key d p) (key d acc)) ∨
    (KeyLt (key d acc) (key d (firstMax d L acc)) ∧ IsFirstMax d L (firstMax d L acc)) := by
  induction L generalizing acc with
  | nil => left; exact ⟨rfl, by simp⟩
  | cons p ps ih =>
    rw [firstMax_cons]
    by_cases hb : better d p acc = true
    · rw [if_pos hb]
      have hpa := (better_true_iff d p acc).1 hb
      right
      rcases ih p with ⟨heq, hall⟩ | ⟨hlt, pre, post, hL, hpre, hpost⟩
      · rw [heq]
        exact ⟨hpa, [], ps, rfl, by simp, hall⟩
      · refine ⟨keyLt_of_lt_of_le hpa ((keyLe_iff_lt_or_eq _ _).2 (Or.inl hlt)), p :: pre, post,
          by rw [List.cons_append, ← hL], ?_, hpost⟩
        intro q hq
        rcases List.mem_cons.1 hq with rfl | hq
        · exact hlt
        · exact hpre q hq
    · have hb' : better d p acc = false := by simpa using hb
      rw [if_neg hb]
      have hpa := (better_false_iff d p acc).1 hb'
      rcases ih acc with ⟨heq, hall⟩ | ⟨hlt, pre, post, hL, hpre, hpost⟩
      · left
        refine ⟨heq, ?_⟩
        intro q hq
        rcases List.mem_cons.1 hq with rfl | hq
        · exact hpa
        · exact hall q hq
      · right
        refine ⟨hlt, p :: pre, post, by rw [List.cons_append, ← hL], ?_, hpost⟩
        intro q hq
        rcases List.mem_cons.1 hq with rfl | hq
        · exact keyLt_of_le_of_lt hpa hlt
        · exact hpre q hq

/-- a list has at most one first maximal element -/
theorem isFirstMax_unique (d : α → Nat) (L : List (List α)) (x y : List α)
    (hx : IsFirstMax d L x) (hy : IsFirstMax d L y) : x = y := by
  obtain ⟨A, B, hA, hApre, hApost⟩ := hx
  obtain ⟨A', B', hA', hA'pre, hA'post⟩ := hy
  subst hA
  induction A generalizing A' with
  | nil =>
    cases A' with
    | nil => simp only [List.nil_append, List.cons.injEq] at hA'; exact hA'.1
    | cons a' A'' =>
      simp only [List.nil_append, List.cons_append, List.cons.injEq] at hA'
      obtain ⟨rfl, hB⟩ := hA'
      have h1 : KeyLt (key d x) (key d y) := hA'pre x List.mem_cons_self
      have h2 : KeyLe (key d y) (key d x) := hApost y (by rw [hB]; simp)
      exact absurd (keyLt_of_lt_of_le h1 h2) (keyLt_irrefl _)
  | cons a A1 ih =>
    cases A' with
    | nil =>
      simp only [List.nil_append, List.cons_append, List.cons.injEq] at hA'
      obtain ⟨rfl, hB⟩ := hA'
      have h1 : KeyLt (key d a) (key d x) := hApre a List.mem_cons_self
      have h2 : KeyLe (key d x) (key d a) := hA'post x (by rw [← hB]; simp)
      exact absurd (keyLt_of_lt_of_le h1 h2) (keyLt_irrefl _)
    | cons a' A'' =>
      simp only [List.cons_append, List.cons.injEq] at hA'
      obtain ⟨rfl, hrest⟩ := hA'
      exact ih (fun p hp => hApre p (List.mem_cons_of_mem _ hp)) A''
        (fun p hp => hA'pre p (List.mem_cons_of_mem _ hp)) hrest

/-- A root-to-leaf path of a tree, declaratively: start at the root, step to any child, stop at
    a block without children. -/
inductive RootToLeaf : Tree α → List α → Prop where
  | leaf (r : α) : RootToLeaf (.node r []) [r]
  | step (r : α) (cs : List (Tree α)) (c : Tree α) (p : List α) :
      c ∈ cs → RootToLeaf c p → RootToLeaf (.node r cs) (r :: p)

mutual
theorem rootToLeaf_of_mem_paths : ∀ (t : Tree α) (p : List α), p ∈ paths t → RootToLeaf t p
  | .node r [], p => by
    intro hp
    simp only [paths, List.mem_singleton] at hp
    subst hp
    exact .leaf r
  | .node r (c :: cs), p => by
    intro hp
    simp only [paths, List.mem_map] at hp
    obtain ⟨q, hq, rfl⟩ := hp
    obtain ⟨c', hc', hr⟩ := rootToLeaf_of_mem_pathsList (c :: cs) q hq
    exact .step r (c :: cs) c' q hc' hr
theorem rootToLeaf_of_mem_pathsList : ∀ (cs : List (Tree α)) (p : List α), p ∈ pathsList cs →
    ∃ c ∈ cs, RootToLeaf c p
  | [], p => by simp [pathsList]
  | c :: cs, p => by
    intro hp
    simp only [pathsList, List.mem_append] at hp
    rcases hp with hp | hp
    · exact ⟨c, List.mem_cons_self, rootToLeaf_of_mem_paths c p hp⟩
    · obtain ⟨c', hc', hr⟩ := rootToLeaf_of_mem_pathsList cs p hp
      exact ⟨c', List.mem_cons_of_mem _ hc', hr⟩
end

theorem mem_pathsList_of_mem (cs : List (Tree α)) (c : Tree α) (hc : c ∈ cs) (p : List α)
    (hp : p ∈ paths c) : p ∈ pathsList cs := by
  induction cs with
  | nil => cases hc
  | cons c' cs ih =>
    simp only [pathsList, List.mem_append]
    rcases List.mem_cons.1 hc with rfl | hc
    · exact Or.inl hp
    · exact Or.inr (ih hc)

theorem mem_paths_of_rootToLeaf (t : Tree α) (p : List α) (h : RootToLeaf t p) : p ∈ paths t := by
  induction h with
  | leaf r => simp [paths]
  | step r cs c p hc _ ih =>
    cases cs with
    | nil => cases hc
    | cons c0 cs0 =>
      simp only [paths, List.mem_map]
      exact ⟨p, mem_pathsList_of_mem (c0 :: cs0) c hc p ih, rfl⟩

/-! ## C03 — the adaptive depth bound, exactly -/

/-- `N / D` rounded to the nearest integer, halves rounded up (= away from zero, the value being
    non-negative): `⌊(2N + D) / 2D⌋`. -/
def roundHalfUp (N D : Nat) : Nat := (2 * N + D) / (2 * D)

/-- `r = roundHalfUp N D` iff `r − ½ ≤ N/D < r + ½` (cross-multiplied by `2D`). -/
theorem roundHalfUp_iff (N D r : Nat) (hD : 0 < D) :
    roundHalfUp N D = r ↔ (2 * D * r ≤ 2 * N + D ∧ 2 * N + D < 2 * D * (r + 1)) := by
  unfold roundHalfUp
  have h2D : 0 < 2 * D := by omega
  constructor
  · intro h
    subst h
    exact ⟨Nat.mul_div_le _ _, Nat.lt_mul_div_succ _ h2D⟩
  · rintro ⟨h1, h2⟩
    have h2' : 2 * N + D < (r + 1) * (2 * D) := by rw [Nat.mul_comm (r + 1)]; exact h2
    have h1' : r * (2 * D) ≤ 2 * N + D := by rw [Nat.mul_comm r]; exact h1
    have ha : (2 * N + D) / (2 * D) < r + 1 := (Nat.div_lt_iff_lt_mul h2D).2 h2'
    have hb : r ≤ (2 * N + D) / (2 * D) := (Nat.le_div_iff_mul_le h2D).2 h1'
    omega

theorem roundHalfUp_mono (N N' D : Nat) (h : N ≤ N') : roundHalfUp N D ≤ roundHalfUp N' D := by
  unfold roundHalfUp
  exact Nat.div_le_div_right (by omega)

theorem roundHalfUp_mul (m D : Nat) (hD : 0 < D) : roundHalfUp (m * D) D = m := by
  rw [roundHalfUp_iff _ _ _ hD]
  have : 2 * D * (m + 1) = 2 * D * m + 2 * D := by rw [Nat.mul_add]; omega
  have h2 : 2 * (m * D) = 2 * D * m := by rw [Nat.mul_comm m D, Nat.mul_assoc]
  omega

/-- The bound for general parameters `M = max depth difference`, `B = MAX_UNSTABLE_BLOCKS`:
    `min thr (M − 1)` once the tree holds `B` blocks or more, otherwise the exact rational
    `M − n·(M − min)/B = (M·B − n·(M − min))/B` rounded half up. -/
def depthBoundGen (M B n thr : Nat) : Nat :=
  let m := min thr (M - 1)
  if n ≥ B then m else roundHalfUp (M * B - n * (M - m)) B

theorem depthBoundGen_le_max (M B n thr : Nat) (hM : 0 < M) :
    depthBoundGen M B n thr ≤ M := by
  unfold depthBoundGen
  simp only
  split
  · omega
  · rename_i hn
    have hB : 0 < B := by omega
    calc roundHalfUp (M * B - n * (M - min thr (M - 1))) B ≤ roundHalfUp (M * B) B :=
          roundHalfUp_mono _ _ _ (Nat.sub_le _ _)
      _ = M := roundHalfUp_mul M B hB

theorem depthBoundGen_ge_min (M B n thr : Nat) (hM : 0 < M) :
    min thr (M - 1) ≤ depthBoundGen M B n thr := by
  unfold depthBoundGen
  simp only
  split
  · exact Nat.le_refl _
  · rename_i hn
    have hB : 0 < B := by omega
    generalize hm : min thr (M - 1) = m
    have hmM : m ≤ M := by omega
    have key : m * B ≤ M * B - n * (M - m) := by
      have h1 : n * (M - m) ≤ B * (M - m) := Nat.mul_le_mul_right _ (by omega)
      have h2 : M * B = m * B + B * (M - m) := by
        rw [Nat.mul_comm B (M - m), ← Nat.add_mul]; congr 1; omega
      omega
    calc m = roundHalfUp (m * B) B := (roundHalfUp_mul m B hB).symm
      _ ≤ _ := roundHalfUp_mono _ _ _ key

theorem depthBoundGen_zero (M B thr : Nat) (hB : 0 < B) : depthBoundGen M B 0 thr = M := by
  unfold depthBoundGen
  simp only
  rw [if_neg (by omega)]
  simp only [Nat.zero_mul, Nat.sub_zero]
  exact roundHalfUp_mul M B hB

theorem depthBoundGen_full (M B n thr : Nat) (hn : B ≤ n) :
    depthBoundGen M B n thr = min thr (M - 1) := by
  unfold depthBoundGen
  simp only
  rw [if_pos hn]

theorem depthBoundGen_antitone (M B n n' thr : Nat) (hM : 0 < M) (h : n ≤ n') :
    depthBoundGen M B n' thr ≤ depthBoundGen M B n thr := by
  by_cases hn' : n' ≥ B
  · rw [depthBoundGen_full M B n' thr hn']
    exact depthBoundGen_ge_min M B n thr hM
  · have hn : ¬ n ≥ B := by omega
    unfold depthBoundGen
    simp only
    rw [if_neg hn, if_neg hn']
    apply roundHalfUp_mono
    have : n * (M - min thr (M - 1)) ≤ n' * (M - min thr (M - 1)) := Nat.mul_le_mul_right _ h
    omega

/-- **The exact specification of `testnet_unstable_max_depth_difference`** with the generated
    constants `MAX_TESTNET_UNSTABLE_DEPTH_DIFFERENCE` and `MAX_UNSTABLE_BLOCKS`. -/
def depthBoundSpec (n thr : Nat) : Nat :=
  depthBoundGen Btc.Gen.maxTestnetUnstableDepthDifference Btc.Gen.maxUnstableBlocks n thr

/-- `r` is *a* nearest integer to `N / D` (`|r − N/D| ≤ ½`, cross-multiplied); at an exact half
    both neighbours qualify. -/
def IsNearest (N D r : Nat) : Prop := 2 * D * r ≤ 2 * N + D ∧ 2 * N ≤ 2 * D * r + D

instance (N D r : Nat) : Decidable (IsNearest N D r) := by unfold IsNearest; exact inferInstance

/-- the numerator of the interpolated value `max − n·(max − min)/MAXB`, over the denominator
    `MAXB` -/
def interpNum (n thr : Nat) : Nat :=
  let M := Btc.Gen.maxTestnetUnstableDepthDifference
  M * Btc.Gen.maxUnstableBlocks - n * (M - min thr (M - 1))

/-- the same value computed with core's exact rationals: `⌊x + ½⌋` for
    `x = max − (n / MAXB)·(max − min)` (only used in tests, to cross-check `roundHalfUp`) -/
def depthBoundRat (n thr : Nat) : Int :=
  let M : Nat := Btc.Gen.maxTestnetUnstableDepthDifference
  let B : Nat := Btc.Gen.maxUnstableBlocks
  let m : Nat := min thr (M - 1)
  if n ≥ B then (m : Int)
  else ((M : Rat) - ((n : Rat) / (B : Rat)) * ((M - m : Nat) : Rat) + 1 / 2).floor

end Btc.Props.SpecsExtra
