import BtcModel.Props.FullCor
import BtcModel.Props.C07
import BtcModel.Props.C19
import BtcModel.Props.BlockCodec

/-!
  Helper definitions and lemmas for `Props/EndpointsFull.lean` (the endpoint-level clauses of
  C05 / C07 / C14 / C16 / C19).

  1. Normal forms of the seven `call*` functions of `Model/Endpoints.lean` once the guard has
     passed (`callGetUtxos_passed`, …): one `match` on the answer of the query, with the accepted
     amount written out.
  2. `callSendTransactionBytes`: `send_transaction` on the real payload bytes (the glue the driver
     performs: length and `decodeExact … |>.isSome`).
  3. `getBlockHeadersT`: `get_block_headers_internal` with the two panics of the Rust code made
     explicit (`.unwrap()` on the header blob of a listed height, slice bounds on the unstable
     chain), and the lemmas needed to show that it never traps under `Inv2`.
  4. `FromBytes`: blocks obtained from consensus bytes through `BlockCodec.toModelBlock`, and the
     preservation of "every block of the ghost and of the tree is `FromBytes`" by one message.
-/
namespace Btc.Lemmas.EndpointsFull
open Btc Btc.State Btc.Spec Btc.Spec.Full

/-! ## 1. The `call*` functions after the guard -/

/-- the fee of a metered endpoint (`get_utxos`, `get_block_headers`) for an `ok` answer -/
def meteredFee (base rate maximum instructions : Nat) : Nat :=
  base + min (instructions / 10 * rate) (maximum - base)

theorem chargeMetered_ok {available base rate maximum ins : Nat}
    (h1 : ¬ available < maximum) (h2 : ¬ available < base) :
    chargeMetered available base rate maximum ins false =
      if maximum < base then none else some (meteredFee base rate maximum ins) := by
  unfold chargeMetered meteredFee
  simp only [h1, h2, if_false, Bool.false_eq_true]
  by_cases h3 : maximum < base
  · simp [h3]
  · have : ¬ (available - base < min (ins / 10 * rate) (maximum - base)) := by
      have := Nat.min_le_right (ins / 10 * rate) (maximum - base); omega
    simp [h3, this]

/-- `get_utxos` after the guard: too few cycles, or the answer of the query with the fee -/
theorem callGetUtxos_passed (env : Env) (s : State) (r : DataReq)
    (hg : s.guard env r.reqNet true = none) :
    callGetUtxos env s r =
      if r.available < s.fees.getUtxosMaximum ∨ r.available < s.fees.getUtxosBase then .trap .cycles
      else match s.getUtxos r.addr (.minConf r.minConf) r.limit with
        | .trap _ => .trap .other
        | .err e => .answered (.err e) s.fees.getUtxosBase s
        | .ok v =>
          if s.fees.getUtxosMaximum < s.fees.getUtxosBase then .trap .other
          else .answered (.ok v) (meteredFee s.fees.getUtxosBase
            s.fees.getUtxosCyclesPerTenInstructions s.fees.getUtxosMaximum r.instructions) s := by
  unfold callGetUtxos
  rw [hg]
  simp only
  by_cases h1 : r.available < s.fees.getUtxosMaximum
  · simp [h1]
  · by_cases h2 : r.available < s.fees.getUtxosBase
    · simp [h2]
    · simp only [h1, h2, decide_false, Bool.or_self, Bool.false_eq_true, if_false, or_self]
      cases hq : s.getUtxos r.addr (.minConf r.minConf) r.limit with
      | trap m => rfl
      | err e => rfl
      | ok v =>
        simp only [chargeMetered_ok h1 h2]
        by_cases h3 : s.fees.getUtxosMaximum < s.fees.getUtxosBase <;> simp [h3]

/-- `get_block_headers` after the guard -/
theorem callGetBlockHeaders_passed (env : Env) (s : State) (r : DataReq)
    (hg : s.guard env r.reqNet true = none) :
    callGetBlockHeaders env s r =
      if r.available < s.fees.getBlockHeadersMaximum ∨ r.available < s.fees.getBlockHeadersBase
      then .trap .cycles
      else match s.getBlockHeaders env.maxHeaders r.start none with
        | .error e => .answered (.error e) s.fees.getBlockHeadersBase s
        | .ok v =>
          if s.fees.getBlockHeadersMaximum < s.fees.getBlockHeadersBase then .trap .other
          else .answered (.ok v) (meteredFee s.fees.getBlockHeadersBase
            s.fees.getBlockHeadersCyclesPerTenInstructions s.fees.getBlockHeadersMaximum
            r.instructions) s := by
  unfold callGetBlockHeaders
  rw [hg]
  simp only
  by_cases h1 : r.available < s.fees.getBlockHeadersMaximum
  · simp [h1]
  · by_cases h2 : r.available < s.fees.getBlockHeadersBase
    · simp [h2]
    · simp only [h1, h2, decide_false, Bool.or_self, Bool.false_eq_true, if_false, or_self]
      cases hq : s.getBlockHeaders env.maxHeaders r.start none with
      | error e => rfl
      | ok v =>
        simp only [chargeMetered_ok h1 h2]
        by_cases h3 : s.fees.getBlockHeadersMaximum < s.fees.getBlockHeadersBase <;> simp [h3]

theorem chargeFlat_eq (available flat maximum : Nat) :
    chargeFlat available flat maximum =
      if available < maximum ∨ available < flat then none else some flat := by
  unfold chargeFlat
  by_cases h1 : available < maximum
  · simp [h1]
  · by_cases h2 : available < flat <;> simp [h1, h2]

/-- `get_balance` after the guard -/
theorem callGetBalance_passed (env : Env) (s : State) (r : DataReq)
    (hg : s.guard env r.reqNet true = none) :
    callGetBalance env s r =
      if r.available < s.fees.getBalanceMaximum ∨ r.available < s.fees.getBalance then .trap .cycles
      else match s.getBalance r.addr r.minConf with
        | .trap _ => .trap .other
        | .err e => .answered (.err e) s.fees.getBalance s
        | .ok v => .answered (.ok v) s.fees.getBalance s := by
  unfold callGetBalance
  rw [hg, chargeFlat_eq]
  simp only
  by_cases h : r.available < s.fees.getBalanceMaximum ∨ r.available < s.fees.getBalance
  · simp only [h, if_true]
  · simp only [h, if_false]
    cases hq : s.getBalance r.addr r.minConf <;> rfl

/-- `get_current_fee_percentiles` after the guard -/
theorem callFeePercentiles_passed (env : Env) (s : State) (r : DataReq)
    (hg : s.guard env r.reqNet true = none) :
    callFeePercentiles env s r =
      if r.available < s.fees.getCurrentFeePercentilesMaximum ∨
          r.available < s.fees.getCurrentFeePercentiles then .trap .cycles
      else match s.feePercentiles env.numTransactions with
        | none => .trap .other
        | some (s', p) => .answered p s.fees.getCurrentFeePercentiles s' := by
  unfold callFeePercentiles
  rw [hg, chargeFlat_eq]
  simp only
  by_cases h : r.available < s.fees.getCurrentFeePercentilesMaximum ∨
      r.available < s.fees.getCurrentFeePercentiles
  · simp only [h, if_true]
  · simp only [h, if_false]
    cases hq : s.feePercentiles env.numTransactions with
    | none => rfl
    | some x => rfl

/-- the two query variants after the guard -/
theorem callGetUtxosQuery_passed (env : Env) (s : State) (r : DataReq)
    (hg : s.guard env r.reqNet true = none) :
    callGetUtxosQuery env s r =
      match s.getUtxos r.addr (.minConf r.minConf) r.limit with
      | .trap _ => .trap .other
      | .err e => .answered (.err e) 0 s
      | .ok v => .answered (.ok v) 0 s := by
  unfold callGetUtxosQuery
  rw [hg]
  simp only
  cases hq : s.getUtxos r.addr (.minConf r.minConf) r.limit <;> rfl

theorem callGetBalanceQuery_passed (env : Env) (s : State) (r : DataReq)
    (hg : s.guard env r.reqNet true = none) :
    callGetBalanceQuery env s r =
      match s.getBalance r.addr r.minConf with
      | .trap _ => .trap .other
      | .err e => .answered (.err e) 0 s
      | .ok v => .answered (.ok v) 0 s := by
  unfold callGetBalanceQuery
  rw [hg]
  simp only
  cases hq : s.getBalance r.addr r.minConf <;> rfl

/-- `send_transaction` after the guard -/
theorem callSendTransaction_passed (env : Env) (s : State) (net : Tree.Net) (available len : Nat)
    (wf : Bool) (hg : s.guard env net false = none) :
    callSendTransaction env s net available len wf =
      if available < s.fees.sendTransactionBase + s.fees.sendTransactionPerByte * len
      then .trap .cycles
      else if wf then
        .answered true (s.fees.sendTransactionBase + s.fees.sendTransactionPerByte * len)
          { s with sendTxCount := s.sendTxCount + 1 }
      else .answered false (s.fees.sendTransactionBase + s.fees.sendTransactionPerByte * len) s := by
  unfold callSendTransaction chargeSend State.sendTransaction
  rw [hg]
  simp only
  by_cases h : available < s.fees.sendTransactionBase + s.fees.sendTransactionPerByte * len
  · simp [h]
  · cases wf <;> simp [h]

/-- a refused call, for each endpoint -/
theorem call_refused (env : Env) (s : State) (r : DataReq) (g : Refusal)
    (hg : s.guard env r.reqNet true = some g) :
    callGetUtxos env s r = .trap (.refused g) ∧ callGetUtxosQuery env s r = .trap (.refused g) ∧
    callGetBalance env s r = .trap (.refused g) ∧ callGetBalanceQuery env s r = .trap (.refused g) ∧
    callGetBlockHeaders env s r = .trap (.refused g) ∧
    callFeePercentiles env s r = .trap (.refused g) := by
  simp [callGetUtxos, callGetUtxosQuery, callGetBalance, callGetBalanceQuery, callGetBlockHeaders,
    callFeePercentiles, hg]

/-! ## 2. `send_transaction` on the payload bytes -/

/-- `bitcoin_send_transaction` on the real payload: the length that is charged for is the length
    of the payload and "well formed" is the verdict of `consensus::deserialize::<Transaction>`
    (`TxCodec.decodeExact`).  This is the glue `Driver/Main.lean` (`sendtx`) performs. -/
def callSendTransactionBytes (env : Env) (s : State) (net : Tree.Net) (available : Nat)
    (bytes : List Nat) : CallResult Bool :=
  callSendTransaction env s net available bytes.length (Btc.TxCodec.decodeExact bytes).isSome

/-- the message of `Spec.Full` that this call is -/
def sendCall (net : Tree.Net) (available : Nat) (bytes : List Nat) : Call :=
  .sendTransaction net available bytes.length (Btc.TxCodec.decodeExact bytes).isSome

/-! ## 3. `get_block_headers` with the panics of the Rust code explicit -/

/-- all entries present -/
def allSome {α : Type} : List (Option α) → Option (List α)
  | [] => some []
  | none :: _ => none
  | some a :: r => (allSome r).map (a :: ·)

theorem allSome_eq_some {α : Type} : ∀ (l : List (Option α)), (∀ x ∈ l, x.isSome = true) →
    allSome l = some (l.filterMap id)
  | [], _ => rfl
  | none :: r, h => by have := h none List.mem_cons_self; cases this
  | some a :: r, h => by
    simp [allSome, allSome_eq_some r (fun x hx => h x (List.mem_cons_of_mem _ hx))]

theorem allSome_some_filterMap {α : Type} : ∀ (l : List (Option α)) (r : List α),
    allSome l = some r → l.filterMap id = r
  | [], r, h => by
    simp only [allSome, Option.some.injEq] at h
    subst h; rfl
  | none :: l, r, h => by simp [allSome] at h
  | some a :: l, r, h => by
    cases hl : allSome l with
    | none => simp [allSome, hl] at h
    | some r' =>
      simp only [allSome, hl, Option.map_some, Option.some.injEq] at h
      subst h
      simp [allSome_some_filterMap l r' hl]

/-- the two panics of `get_block_headers_internal` -/
inductive HeadersTrap where
  /-- `self.block_headers.get(&entry.value()).unwrap()` in
      `BlockHeaderStore::get_block_headers_in_range`: a height of the range is listed in
      `block_heights` but its hash has no blob in `block_headers` -/
  | missingBlob
  /-- the slice `get_main_chain(self).into_chain()[a..=b]` in
      `UnstableBlocks::get_block_headers_in_range` -/
  | sliceOutOfRange
deriving Repr, DecidableEq

/-- `BlockHeaderStore::get_block_headers_in_range` with its `.unwrap()`: the entries of
    `block_heights` in `[lo, hi]` in ascending order, each looked up in `block_headers`;
    `none` = the `.unwrap()` panics.  (A height of the range with no entry in `block_heights` is
    skipped by the Rust iterator, it is not a panic.) -/
def rangeT (hs : HeaderStore) (lo hi : Nat) : Option (List String) :=
  allSome ((sortBy (fun (a b : Nat × Nat) => a.1 < b.1)
    (hs.byHeight.filter (fun p => lo ≤ p.1 && p.1 ≤ hi))).map
      (fun p => (AList.find? hs.byHash p.2).map (·.raw)))

/-- a stricter reading, height by height: every height `lo, …, lo + cnt - 1` must be listed in
    `block_heights` and its hash must have a blob; `none` otherwise -/
def lookupHeights (hs : HeaderStore) (lo cnt : Nat) : Option (List String) :=
  allSome ((List.range' lo cnt).map (fun i =>
    (AList.find? hs.byHeight i).bind (fun h => (AList.find? hs.byHash h).map (·.raw))))

/-- `get_block_headers_internal`, parameterised by the function that serves the stable part
    (`none` = it panics), with the slice bounds of the unstable part checked as Rust checks them:
    `chain[a..=b]` panics unless `a ≤ b + 1 ≤ chain.len()`. -/
def getBlockHeadersWith (stablePart : Nat → Nat → Option (List String)) (s : State)
    (maxHeaders start : Nat) (end_ : Option Nat) :
    Except HeadersTrap (Except HeadersError (Nat × List String)) :=
  match effectiveRange s.mainChainHeight maxHeaders start end_ with
  | .error e => .ok (.error e)
  | .ok (lo, hi) =>
    match (if lo ≥ s.stableHeight then some [] else stablePart lo (min hi (s.stableHeight - 1))) with
    | none => .error .missingBlob
    | some stable =>
      if hi < s.stableHeight then .ok (.ok (hi, stable))
      else if lo - s.stableHeight ≤ hi - s.stableHeight + 1 ∧
          hi - s.stableHeight + 1 ≤ s.unstable.mainChain.length then
        .ok (.ok (hi, stable ++
          ((s.unstable.mainChain.drop (lo - s.stableHeight)).take
            (hi - s.stableHeight + 1 - (lo - s.stableHeight))).map (fun b => b.blk.header)))
      else .error .sliceOutOfRange

/-- **`get_block_headers_internal` as the Rust code executes it**: the stable part comes from the
    iterator over `block_heights` with `.unwrap()` on the blob (`rangeT`) -/
def getBlockHeadersT (s : State) (maxHeaders start : Nat) (end_ : Option Nat) :
    Except HeadersTrap (Except HeadersError (Nat × List String)) :=
  getBlockHeadersWith (rangeT s.headers) s maxHeaders start end_

/-- the stricter variant: a stable height of the range that is not listed is a trap as well -/
def getBlockHeadersStrict (s : State) (maxHeaders start : Nat) (end_ : Option Nat) :
    Except HeadersTrap (Except HeadersError (Nat × List String)) :=
  getBlockHeadersWith (fun lo hi => lookupHeights s.headers lo (hi + 1 - lo)) s maxHeaders start end_

theorem mainChainHeight_eq (s : State) :
    s.mainChainHeight = s.unstable.mainChain.length + s.utxos.nextHeight - 1 := by
  unfold State.mainChainHeight Unstable.mainChain
  rw [Props.C02.mainChainLen_eq_length, ← Props.C02.mainChain_eq_bestPath]

/-- if the stable part is served without a panic and as the model serves it, the partial version
    does not trap and answers as the (total) model function -/
theorem getBlockHeadersWith_eq (f : Nat → Nat → Option (List String)) (s : State)
    (maxHeaders start : Nat) (end_ : Option Nat) (hm : 1 ≤ maxHeaders)
    (hf : ∀ lo hi, lo < s.stableHeight → hi < s.stableHeight →
      f lo hi = some (s.headers.range lo hi)) :
    getBlockHeadersWith f s maxHeaders start end_ = .ok (s.getBlockHeaders maxHeaders start end_) := by
  unfold getBlockHeadersWith State.getBlockHeaders
  cases hr : effectiveRange s.mainChainHeight maxHeaders start end_ with
  | error e => rfl
  | ok p =>
    obtain ⟨lo, hi⟩ := p
    have hrl := Props.C07.range_le hm hr
    have hlen := mainChainHeight_eq s
    have hpos := Props.C07.mainChain_length_pos s
    have hsh : s.stableHeight = s.utxos.nextHeight := rfl
    simp only
    by_cases h1 : lo ≥ s.stableHeight
    · have h2 : ¬ hi < s.stableHeight := by omega
      have hb : lo - s.stableHeight ≤ hi - s.stableHeight + 1 ∧
          hi - s.stableHeight + 1 ≤ s.unstable.mainChain.length := by
        constructor <;> omega
      simp only [h1, h2, hb, if_true, if_false, and_self]
    · have hlo : lo < s.stableHeight := by omega
      have hmin : min hi (s.stableHeight - 1) < s.stableHeight := by omega
      simp only [h1, if_false, hf lo _ hlo hmin]
      by_cases h2 : hi < s.stableHeight
      · simp only [h2, if_true, List.append_nil]
      · have hb : lo - s.stableHeight ≤ hi - s.stableHeight + 1 ∧
            hi - s.stableHeight + 1 ≤ s.unstable.mainChain.length := by
          constructor <;> omega
        simp only [h2, hb, if_true, if_false, and_self]

/-- in any state: whatever the partial version answers, the model function answers too -/
theorem getBlockHeadersT_refines (s : State) (maxHeaders start : Nat) (end_ : Option Nat)
    (a : Except HeadersError (Nat × List String))
    (h : getBlockHeadersT s maxHeaders start end_ = .ok a) :
    a = s.getBlockHeaders maxHeaders start end_ := by
  unfold getBlockHeadersT getBlockHeadersWith at h
  unfold State.getBlockHeaders
  cases hr : effectiveRange s.mainChainHeight maxHeaders start end_ with
  | error e =>
    rw [hr] at h
    simp only [Except.ok.injEq] at h
    exact h.symm
  | ok p =>
    obtain ⟨lo, hi⟩ := p
    rw [hr] at h
    simp only at h ⊢
    by_cases h1 : lo ≥ s.stableHeight
    · simp only [h1, if_true] at h ⊢
      by_cases h2 : hi < s.stableHeight
      · simp only [h2, if_true, Except.ok.injEq] at h ⊢
        rw [← h]; simp
      · simp only [h2, if_false] at h ⊢
        split at h
        · simp only [Except.ok.injEq] at h
          exact h.symm
        · cases h
    · simp only [h1, if_false] at h ⊢
      cases hq : rangeT s.headers lo (min hi (s.stableHeight - 1)) with
      | none => rw [hq] at h; cases h
      | some l =>
        rw [hq] at h
        have hl : s.headers.range lo (min hi (s.stableHeight - 1)) = l := by
          have := allSome_some_filterMap _ _ hq
          rw [List.filterMap_map] at this
          exact this
        simp only at h
        rw [hl]
        by_cases h2 : hi < s.stableHeight
        · simp only [h2, if_true, Except.ok.injEq] at h ⊢
          rw [← h]; simp
        · simp only [h2, if_false] at h ⊢
          split at h
          · simp only [Except.ok.injEq] at h
            exact h.symm
          · cases h

/-! ### the header store of a reachable state (paused or not) -/

open Btc.Lemmas.Reach2 Btc.Lemmas.FullCor

theorem inv2_heightsNodup {s : State} {G : List Block} (h2 : Inv2 s G) : HeightsNodup s.headers := by
  rcases h2 with hA | ⟨s0, A, B, hA, hP⟩
  · exact hA.headers.heights
  · have hh : s.headers = s0.headers.insert A.blk G.length := by
      have := congrArg State.headers hP.base.eq
      exact this
    rw [hh]
    exact HeightsNodup.insert hA.headers.heights _ _

/-- the model's stable range is the slice of the ghost -/
theorem inv2_range_eq {s : State} {G : List Block} (h2 : Inv2 s G) (lo hi : Nat)
    (hhi : hi < G.length) :
    s.headers.range lo hi = ((G.drop lo).take (hi + 1 - lo)).map (·.header) :=
  HeaderStore.range_eq s.headers G (inv2_heightsNodup h2) (fun i hi' => inv2_headers h2 i hi')
    (fun g hg => ⟨_, inv2_headersByHash h2 g hg, rfl⟩) lo hi hhi

/-- **the `.unwrap()` never panics**: every listed height below the stable height has its blob -/
theorem inv2_rangeT {s : State} {G : List Block} (h2 : Inv2 s G) (lo hi : Nat)
    (hhi : hi < G.length) : rangeT s.headers lo hi = some (s.headers.range lo hi) := by
  unfold rangeT HeaderStore.range
  rw [allSome_eq_some]
  · simp only [List.filterMap_map]
    rfl
  · intro x hx
    obtain ⟨p, hp, rfl⟩ := List.mem_map.mp hx
    have hp' := List.mem_filter.mp ((sortBy_perm _ _).mem_iff.mp hp)
    have hle : p.1 ≤ hi := by
      have := hp'.2
      simp only [Bool.and_eq_true, decide_eq_true_eq] at this
      exact this.2
    have hlt : p.1 < G.length := by omega
    have hf := AList.find?_of_mem s.headers.byHeight (inv2_heightsNodup h2) p.1 p.2 hp'.1
    rw [inv2_headers h2 p.1 hlt] at hf
    simp only [Option.some.injEq] at hf
    rw [← hf, inv2_headersByHash h2 _ (List.getElem_mem hlt)]
    rfl

/-- **no stable height is missing**: the height-by-height lookup succeeds and gives the slice -/
theorem inv2_lookupHeights {s : State} {G : List Block} (h2 : Inv2 s G) (lo cnt : Nat)
    (h : lo + cnt ≤ G.length) :
    lookupHeights s.headers lo cnt = some (((G.drop lo).take cnt).map (·.header)) := by
  unfold lookupHeights
  have e : (List.range' lo cnt).map (fun i => (AList.find? s.headers.byHeight i).bind
        (fun h => (AList.find? s.headers.byHash h).map (·.raw))) =
      (List.range' lo cnt).map (fun i => (G[i]?).map (·.header)) := by
    apply List.map_congr_left
    intro i hi
    have hlt : i < G.length := by have := List.mem_range'_1.mp hi; omega
    rw [inv2_headers h2 i hlt, Option.bind_some,
      inv2_headersByHash h2 _ (List.getElem_mem hlt), List.getElem?_eq_getElem hlt]
    rfl
  rw [e, allSome_eq_some]
  · rw [List.filterMap_map, ← range'_filterMap_getElem? G lo cnt (fun _ => h), List.map_filterMap]
    rfl
  · intro x hx
    obtain ⟨i, hi, rfl⟩ := List.mem_map.mp hx
    have hlt : i < G.length := by have := List.mem_range'_1.mp hi; omega
    rw [List.getElem?_eq_getElem hlt]
    rfl

/-- **C07 trap-freedom under the invariant** (paused or not): neither the `.unwrap()` on the
    header store nor the slice of the unstable chain panics, no stable height is missing, and the
    partial versions answer what the total model function answers -/
theorem inv2_getBlockHeadersT {s : State} {G : List Block} (h2 : Inv2 s G)
    (maxHeaders start : Nat) (end_ : Option Nat) (hm : 1 ≤ maxHeaders) :
    getBlockHeadersT s maxHeaders start end_ = .ok (s.getBlockHeaders maxHeaders start end_) ∧
    getBlockHeadersStrict s maxHeaders start end_ = .ok (s.getBlockHeaders maxHeaders start end_) := by
  have hn : s.stableHeight = G.length := inv2_nextHeight h2
  constructor
  · apply getBlockHeadersWith_eq _ _ _ _ _ hm
    intro lo hi _ hhi
    exact inv2_rangeT h2 lo hi (by omega)
  · apply getBlockHeadersWith_eq _ _ _ _ _ hm
    intro lo hi hlo hhi
    rw [inv2_lookupHeights h2 lo (hi + 1 - lo) (by omega), inv2_range_eq h2 lo hi (by omega)]

/-! ## 4. Blocks that come from consensus bytes -/

section FromBytes
open Btc.BlockCodec Btc.TxCodec
open Btc.Merkle (ofBeBytes)

/-- `b` is the model block (`BlockCodec.toModelBlock`) of a raw block with a well-formed header:
    what `Driver.parseBlock` / `BlockCodec.blockOfBytesPrefix` build from the bytes of a
    `get_successors` blob (and from the genesis bytes) -/
def FromBytes (b : Block) : Prop :=
  ∃ (net : Tree.Net) (diffOf : HeaderFields → Nat) (raw : RawBlock),
    raw.header.WF ∧ b = toModelBlock net diffOf raw

/-- `r` is the 80-byte serialised header of the model block `b`: `b.header` is its hex text, the
    block hash is its double SHA-256, and `b.prev` is its bytes 4..36 (the `prev_blockhash` field) -/
structure HeaderOf (b : Block) (r : List Nat) : Prop where
  length : r.length = 80
  bytes : AllBytes r
  text : b.header = hexOfBytes r
  hash : b.hash = headerHash r
  prev : b.prev = ofBeBytes ((r.drop 4).take 32)

theorem encodeHeader_prev (h : HeaderFields) (hw : h.WF) :
    ((encodeHeader h).drop 4).take 32 = h.prev := by
  unfold encodeHeader
  rw [List.drop_left' (encodeLE_length 4 h.version), List.take_left' hw.2.1]

theorem headerOf_of_fromBytes {b : Block} (h : FromBytes b) : ∃ r, HeaderOf b r := by
  obtain ⟨net, diffOf, raw, hw, rfl⟩ := h
  refine ⟨encodeHeader raw.header, encodeHeader_length _ hw, encodeHeader_allBytes _ hw, rfl, rfl, ?_⟩
  rw [encodeHeader_prev _ hw]
  rfl

/-- every block decoded from bytes (prefix decoding, as `heartbeat.rs` decodes the blobs of a
    response) is `FromBytes` -/
theorem fromBytes_of_blockOfBytesPrefix (net : Tree.Net) (diffOf : HeaderFields → Nat)
    (bs : List Nat) (hb : AllBytes bs) (b : Block) (h : blockOfBytesPrefix net diffOf bs = some b) :
    FromBytes b := by
  unfold blockOfBytesPrefix at h
  cases hd : decodeBlock bs with
  | none => rw [hd] at h; cases h
  | some p =>
    obtain ⟨raw, rest⟩ := p
    rw [hd] at h
    simp only [Option.map_some, Option.some.injEq] at h
    exact ⟨net, diffOf, raw, (Props.BlockCodec.block_canonical bs raw rest hb hd).2.1, h.symm⟩

/-- the serialised header of a `FromBytes` block (a choice; `[]` for other blocks) -/
noncomputable def headerBytes (b : Block) : List Nat := by
  classical exact if h : ∃ r, HeaderOf b r then Classical.choose h else []

theorem headerBytes_spec {b : Block} (h : FromBytes b) : HeaderOf b (headerBytes b) := by
  have h' := headerOf_of_fromBytes h
  unfold headerBytes
  rw [dif_pos h']
  exact Classical.choose_spec h'

end FromBytes

/-! ### provenance of the blocks of a configuration -/

/-- every block of the ghost and of the tree of unstable blocks satisfies `P` -/
def BlocksSat (P : Block → Prop) (s : State) (G : List Block) : Prop :=
  (∀ b ∈ G, P b) ∧ ∀ c ∈ s.unstable.tree.blocks, P c.blk

theorem BlocksSat.bestBlocks {P : Block → Prop} {s : State} {G : List Block}
    (h : BlocksSat P s G) : ∀ b ∈ Props.C07.bestBlocks s G, P b := by
  intro b hb
  unfold Props.C07.bestBlocks at hb
  rcases List.mem_append.mp hb with hb | hb
  · exact h.1 b hb
  · obtain ⟨c, hc, rfl⟩ := List.mem_map.mp hb
    exact h.2 c (Tree.mainChain_mem_blocks CBlock.diff s.unstable.tree c hc)

theorem push_blocks_mem (u u' : Unstable) (utxos : UtxoSet) (b : Block)
    (h : u.push utxos b = .ok u') : ∀ c ∈ u'.tree.blocks, c.blk = b ∨ c ∈ u.tree.blocks := by
  cases hf : Tree.findDepth CBlock.hash b.prev u.tree with
  | none => simp [Unstable.push, hf] at h
  | some depth =>
    simp only [Unstable.push, hf] at h
    cases hi : insertOutpoints u.cache utxos b (utxos.nextHeight + depth + 1) with
    | none => simp [hi] at h
    | some cm =>
      obtain ⟨cache, m⟩ := cm
      simp only [hi] at h
      cases he : Tree.extend CBlock.hash b.prev (CBlock.mk b (some m.feeRates) m.utxoDelta) u.tree with
      | none => simp [he] at h
      | some tree =>
        simp only [he, Unstable.PushResult.ok.injEq] at h
        rw [← h]
        intro c hc
        rcases (TreeExtend.extend_mem_blocks _ _ _ _ _ he c).mp hc with rfl | hc
        · exact Or.inl rfl
        · exact Or.inr hc

theorem popSteps_popped_mem {bound : Unstable.BoundFn} {u u' : Unstable} {n : Nat}
    {popped : List Block} (h : PopSteps bound u n popped u') :
    ∀ b ∈ popped, ∃ c ∈ u.tree.blocks, c.blk = b := by
  induction h with
  | nil u n => intro b hb; cases hb
  | cons u n b u1 bs u2 hpop hrest ih =>
    intro x hx
    rcases List.mem_cons.mp hx with rfl | hx
    · obtain ⟨r, cs, i, ht, _, hb, _⟩ := Props.C03.pop_ok_spec bound u u1 (n + 1) x hpop
      refine ⟨r, ?_, hb.symm⟩
      rw [ht]; simp [Tree.blocks]
    · obtain ⟨c, hc, hcb⟩ := ih x hx
      have hsub := Lemmas.Reach.popSteps_sublist bound
        (PopSteps.cons u n b u1 [] u1 hpop (PopSteps.nil u1 (n + 1)))
      exact ⟨c, hsub.subset hc, hcb⟩

/-- one step of `Spec.step2` keeps the provenance, if a pushed block satisfies `P` -/
theorem step2_blocksSat (bound : Unstable.BoundFn) {P : Block → Prop} {s : State} {G : List Block}
    (h2 : Inv2 s G) (op : Op) (s' : State) (G' : List Block)
    (hs : step2 bound (s, G) op = some (s', G')) (hop : ∀ b, op = .push b → P b)
    (h : BlocksSat P s G) : BlocksSat P s' G' := by
  cases op with
  | ingest b =>
    obtain ⟨hG, hp⟩ := inv2_ingest_popSteps bound h2 b s' G' hs
    subst hG
    refine ⟨?_, ?_⟩
    · intro x hx
      rcases List.mem_append.mp hx with hx | hx
      · exact h.1 x hx
      · obtain ⟨c, hc, rfl⟩ := popSteps_popped_mem hp x hx
        exact h.2 c hc
    · intro c hc
      exact h.2 c ((Lemmas.Reach.popSteps_sublist bound hp).subset hc)
  | push b =>
    simp only [step2, step] at hs
    split at hs
    · rename_i u hu
      simp only [Option.some.injEq, Prod.mk.injEq] at hs
      obtain ⟨rfl, rfl⟩ := hs
      refine ⟨h.1, ?_⟩
      intro c hc
      rcases push_blocks_mem s.unstable u s.utxos b hu c hc with hcb | hc
      · rw [hcb]; exact hop b rfl
      · exact h.2 c hc
    · cases hs
  | setConfig c =>
    simp only [step2, step, Option.some.injEq, Prod.mk.injEq] at hs
    obtain ⟨rfl, rfl⟩ := hs
    refine ⟨h.1, ?_⟩
    rw [(Props.C09.setConfig_frame s c).2.1]
    exact h.2
  | upgrade c =>
    simp only [step2, step, Option.some.injEq, Prod.mk.injEq] at hs
    obtain ⟨rfl, rfl⟩ := hs
    refine ⟨h.1, ?_⟩
    rw [(Props.C09.stripped_upgrade' s c).tree, Tree.blocks_mapT]
    intro x hx
    obtain ⟨c0, hc0, rfl⟩ := List.mem_map.mp hx
    exact h.2 c0 hc0
  | query =>
    simp only [step2, step, Option.some.injEq, Prod.mk.injEq] at hs
    obtain ⟨rfl, rfl⟩ := hs
    exact h
  | insertNext x =>
    have hs' : step bound (s, G) (.insertNext x) = some (s', G') := hs
    obtain ⟨hG, _, _, ht⟩ := Props.C03History.other_step (Or.inr ⟨x, rfl⟩) hs'
    subst hG
    refine ⟨h.1, ?_⟩
    rw [ht]
    exact h.2

/-- a message (as a `FrameRun`) keeps the provenance, if the pushed blocks satisfy `P` -/
theorem frameRun_blocksSat {bound : Unstable.BoundFn} {P : Block → Prop}
    {sg sg' : State × List Block} {ops : List Op} (hr : FrameRun bound sg ops sg') :
    Inv2 sg.1 sg.2 → (∀ b, Op.push b ∈ ops → P b) → BlocksSat P sg.1 sg.2 →
    BlocksSat P sg'.1 sg'.2 := by
  induction hr with
  | nil sg => intro _ _ h; exact h
  | frame sg s1 ops sg2 hf _ ih =>
    intro h2 hp h
    apply ih (Lemmas.FullSys.inv2_frame hf h2) hp
    refine ⟨h.1, ?_⟩
    show ∀ c ∈ s1.unstable.tree.blocks, P c.blk
    rw [hf.unstable]
    exact h.2
  | op sg o sg1 ops sg2 hd hs _ ih =>
    intro h2 hp h
    apply ih (step2_preserves_inv2 bound sg.1 sg.2 o sg1.1 sg1.2 h2 hd hs)
      (fun b hb => hp b (List.mem_cons_of_mem _ hb))
    exact step2_blocksSat bound h2 o sg1.1 sg1.2 hs
      (fun b hb => hp b (by rw [hb]; exact List.mem_cons_self)) h

theorem acceptedBlocks_decoded (env : Env) : ∀ (blobs : List String) (s : State) (b : Block),
    b ∈ acceptedBlocks env s blobs → ∃ blob, env.dec.block blob = some b
  | [], _, _, h => by simp [acceptedBlocks] at h
  | blob :: rest, s, b, h => by
    simp only [acceptedBlocks] at h
    cases hd : env.dec.block blob with
    | none => simp [hd] at h
    | some b0 =>
      simp only [hd] at h
      cases hi : insertBlock env s b0 with
      | ok s' =>
        simp only [hi, List.mem_cons] at h
        rcases h with rfl | h
        · exact ⟨blob, hd⟩
        · exact acceptedBlocks_decoded env rest s' b h
      | rejected w => simp [hi] at h
      | trap => simp [hi] at h

/-- the blocks a message pushes are blocks the decoder of its environment produced -/
theorem msgOps_push_decoded (env : Env) (s : State) (m : Msg) (b : Block)
    (h : Op.push b ∈ msgOps env s m) : ∃ blob, env.dec.block blob = some b := by
  have hfin : Op.push b ∈ finishOps env s → ∃ blob, env.dec.block blob = some b := by
    intro h
    unfold finishOps at h
    split at h
    · rename_i r _
      unfold processOps at h
      simp only at h
      rcases List.mem_append.mp h with h | h
      · obtain ⟨x, hx, hxb⟩ := List.mem_map.mp h
        cases hxb
        exact acceptedBlocks_decoded env _ _ _ hx
      · split at h
        · obtain ⟨x, _, hxb⟩ := List.mem_map.mp h
          cases hxb
        · cases h
    · cases h
  cases m with
  | heartbeat budget =>
    simp only [msgOps] at h
    split at h
    · simp at h
    · exact hfin h
    · cases h
  | reply r => cases h
  | upgrade cfg => simp [msgOps] at h
  | setConfig c => simp [msgOps] at h
  | call c => cases h

/-- **one message keeps the provenance of the blocks**, if every block the decoder of its
    environment produces satisfies `P` -/
theorem stepMsg_blocksSat {P : Block → Prop} {sys : Fetch.Sys} {G : List Block}
    (hr : FullReachable sys G) (env : Env) (m : Msg) (ht : Trusted env (sys, G) m)
    (hdec : ∀ blob b, env.dec.block blob = some b → P b) (h : BlocksSat P sys.st G) :
    BlocksSat P (stepMsg env (sys, G) m).1.st (stepMsg env (sys, G) m).2 :=
  frameRun_blocksSat (Props.FullSys.message_simulation env (sys, G) m ht)
    (Lemmas.FullSys.fullReachable_inv2 hr)
    (fun b hb => by
      obtain ⟨blob, hblob⟩ := msgOps_push_decoded env sys.st m b hb
      exact hdec blob b hblob) h

/-- the configurations reachable when the genesis block and every block the decoders produce
    satisfy `P` -/
inductive FullReachableP (P : Block → Prop) : Fetch.Sys → List Block → Prop where
  | init (thr : Nat) (net : Tree.Net) (genesis : Block) (s0 : State) :
      TxValid [genesis] → State.new thr net genesis = some s0 → P genesis →
      FullReachableP P { st := s0, pending := none } []
  | step (sys : Fetch.Sys) (G : List Block) (env : Env) (m : Msg) :
      FullReachableP P sys G → Trusted env (sys, G) m →
      (∀ blob b, env.dec.block blob = some b → P b) →
      FullReachableP P (stepMsg env (sys, G) m).1 (stepMsg env (sys, G) m).2

theorem new_blocks (thr : Nat) (net : Tree.Net) (genesis : Block) (s0 : State)
    (h : State.new thr net genesis = some s0) : ∀ c ∈ s0.unstable.tree.blocks, c.blk = genesis := by
  unfold State.new at h
  simp only at h
  cases hu : Unstable.new {} thr genesis net with
  | none => rw [hu] at h; cases h
  | some u =>
    rw [hu] at h
    simp only [Option.some.injEq] at h
    subst h
    unfold Unstable.new at hu
    split at hu
    · cases hu
    · simp only [Option.some.injEq] at hu
      subst hu
      intro c hc
      simp only [Tree.leaf, Tree.blocks, Tree.blocksList, List.mem_cons, List.not_mem_nil,
        or_false] at hc
      rw [hc]

/-- **the provenance is an invariant**: in such a configuration every block of the ghost and of
    the tree satisfies `P` -/
theorem fullReachableP_sat {P : Block → Prop} {sys : Fetch.Sys} {G : List Block}
    (h : FullReachableP P sys G) : FullReachable sys G ∧ BlocksSat P sys.st G := by
  induction h with
  | init thr net genesis s0 hv hn hp =>
    refine ⟨FullReachable.init thr net genesis s0 hv hn, ⟨fun b hb => (nomatch hb), ?_⟩⟩
    intro c hc
    rw [new_blocks thr net genesis s0 hn c hc]
    exact hp
  | step sys G env m _ ht hdec ih =>
    exact ⟨FullReachable.step sys G env m ih.1 ht, stepMsg_blocksSat ih.1 env m ht hdec ih.2⟩

end Btc.Lemmas.EndpointsFull
