import BtcModel.Lemmas.Ingest

/-!
  Time slicing of `UtxoSet.ingestLoop`: one iteration as a function (`loopStep`), a fuel-free
  reading (`run`), pause/resume determinism (`run_add`), exact budget accounting (`run_work`),
  and the iterated `ingestBlock; ingestContinue; …` (`contRounds`).
-/
namespace Btc
namespace UtxoSet

/-! ### One iteration of the loop -/

inductive LoopStep where
  | stop (r : RoundResult)
  | cont (u : UtxoSet) (ing : Ingesting) (budget : Nat)

/-- the body of `ingestLoop` -/
def loopStep (u : UtxoSet) (ing : Ingesting) (budget : Nat) : LoopStep :=
  match ing.block.txs[ing.txIdx]? with
  | none => .stop (.done { u with ingesting := none, nextHeight := u.nextHeight + 1 } budget)
  | some tx =>
    if !tx.coinbase && ing.inIdx < tx.ins.length then
      if budget = 0 then .stop (.paused { u with ingesting := some { ing with outIdx := 0 } })
      else
        match tx.ins[ing.inIdx]? with
        | none => .stop (.trap "unreachable")
        | some o =>
          match removeInput u ing.delta o with
          | .trap m => .stop (.trap m)
          | .ok u' d' => .cont u' { ing with inIdx := ing.inIdx + 1, delta := d' } (budget - 1)
    else if ing.outIdx < tx.outs.length then
      if budget = 0 then
        .stop (.paused { u with ingesting := some { ing with inIdx := tx.ins.length } })
      else
        match tx.outs[ing.outIdx]? with
        | none => .stop (.trap "unreachable")
        | some t =>
          match insertOutput u ing.delta tx.txid ing.outIdx t with
          | .trap m => .stop (.trap m)
          | .ok u' d' => .cont u' { ing with outIdx := ing.outIdx + 1, delta := d' } (budget - 1)
    else
      .cont u { ing with txIdx := ing.txIdx + 1, inIdx := 0, outIdx := 0 } budget

theorem ingestLoop_succ (fuel : Nat) (u : UtxoSet) (ing : Ingesting) (budget : Nat) :
    ingestLoop (fuel + 1) u ing budget =
      match loopStep u ing budget with
      | .stop r => r
      | .cont u' ing' b' => ingestLoop fuel u' ing' b' := by
  cases htx : ing.block.txs[ing.txIdx]? with
  | none => simp only [ingestLoop, loopStep, htx]
  | some tx =>
    by_cases hin : (!tx.coinbase && decide (ing.inIdx < tx.ins.length)) = true
    · by_cases hb : budget = 0
      · simp only [ingestLoop, loopStep, htx, hin, hb, if_true]
      · simp only [ingestLoop, loopStep, htx, hin, hb, if_true, if_false]
        cases tx.ins[ing.inIdx]? with
        | none => rfl
        | some o => simp only; cases removeInput u ing.delta o <;> rfl
    · have hin : (!tx.coinbase && decide (ing.inIdx < tx.ins.length)) = false := by
        simpa using hin
      by_cases hout : ing.outIdx < tx.outs.length
      · by_cases hb : budget = 0
        · simp only [ingestLoop, loopStep, htx, hin, hout, hb, if_true, if_false, Bool.false_eq_true]
        · simp only [ingestLoop, loopStep, htx, hin, hout, hb, if_true, if_false, Bool.false_eq_true]
          cases tx.outs[ing.outIdx]? with
          | none => rfl
          | some t => simp only; cases insertOutput u ing.delta tx.txid ing.outIdx t <;> rfl
      · simp only [ingestLoop, loopStep, htx, hin, hout, if_false, Bool.false_eq_true]


/-! ### The budget-independent part of an iteration -/

inductive PStep where
  /-- all transactions processed -/
  | fin
  /-- transaction boundary: no budget needed -/
  | free (ing' : Ingesting)
  /-- a budgeted step: the (normalised) position stored at a pause, and the outcome of the step -/
  | work (ing1 : Ingesting) (r : Except String (UtxoSet × Ingesting))

def pureStep (u : UtxoSet) (ing : Ingesting) : PStep :=
  match ing.block.txs[ing.txIdx]? with
  | none => .fin
  | some tx =>
    if !tx.coinbase && ing.inIdx < tx.ins.length then
      .work { ing with outIdx := 0 }
        (match tx.ins[ing.inIdx]? with
          | none => .error "unreachable"
          | some o =>
            match removeInput u ing.delta o with
            | .trap m => .error m
            | .ok u' d' => .ok (u', { ing with inIdx := ing.inIdx + 1, delta := d' }))
    else if ing.outIdx < tx.outs.length then
      .work { ing with inIdx := tx.ins.length }
        (match tx.outs[ing.outIdx]? with
          | none => .error "unreachable"
          | some t =>
            match insertOutput u ing.delta tx.txid ing.outIdx t with
            | .trap m => .error m
            | .ok u' d' => .ok (u', { ing with outIdx := ing.outIdx + 1, delta := d' }))
    else .free { ing with txIdx := ing.txIdx + 1, inIdx := 0, outIdx := 0 }

theorem loopStep_eq (u : UtxoSet) (ing : Ingesting) (b : Nat) :
    loopStep u ing b =
      match pureStep u ing with
      | .fin => .stop (.done { u with ingesting := none, nextHeight := u.nextHeight + 1 } b)
      | .free ing' => .cont u ing' b
      | .work ing1 r =>
        if b = 0 then .stop (.paused { u with ingesting := some ing1 })
        else match r with
          | .error m => .stop (.trap m)
          | .ok (u', ing') => .cont u' ing' (b - 1) := by
  cases htx : ing.block.txs[ing.txIdx]? with
  | none => simp only [loopStep, pureStep, htx]
  | some tx =>
    by_cases hin : (!tx.coinbase && decide (ing.inIdx < tx.ins.length)) = true
    · by_cases hb : b = 0
      · simp only [loopStep, pureStep, htx, hin, hb, if_true]
      · simp only [loopStep, pureStep, htx, hin, hb, if_true, if_false]
        cases tx.ins[ing.inIdx]? with
        | none => rfl
        | some o => simp only; cases removeInput u ing.delta o <;> rfl
    · have hin : (!tx.coinbase && decide (ing.inIdx < tx.ins.length)) = false := by
        simpa using hin
      by_cases hout : ing.outIdx < tx.outs.length
      · by_cases hb : b = 0
        · simp only [loopStep, pureStep, htx, hin, hout, hb, if_true, if_false, Bool.false_eq_true]
        · simp only [loopStep, pureStep, htx, hin, hout, hb, if_true, if_false, Bool.false_eq_true]
          cases tx.outs[ing.outIdx]? with
          | none => rfl
          | some t => simp only; cases insertOutput u ing.delta tx.txid ing.outIdx t <;> rfl
      · simp only [loopStep, pureStep, htx, hin, hout, if_false, Bool.false_eq_true]

/-! ### Measures -/

/-- budgeted steps left in the current transaction -/
def curWork (ing : Ingesting) (tx : Tx) : Nat :=
  (if !tx.coinbase && ing.inIdx < tx.ins.length then tx.ins.length - ing.inIdx else 0) +
    (tx.outs.length - ing.outIdx)

/-- **remaining work**: budgeted steps (inputs of non-coinbase transactions, outputs) still to do -/
def remWork (ing : Ingesting) : Nat :=
  match ing.block.txs[ing.txIdx]? with
  | none => 0
  | some tx => curWork ing tx + ((ing.block.txs.drop (ing.txIdx + 1)).map txSteps).sum

/-- remaining loop iterations: the work, one per transaction boundary, one to finish -/
def remIter (ing : Ingesting) : Nat :=
  remWork ing + (ing.block.txs.length - ing.txIdx) + 1

/-- positions that occur in runs: the output index is `0` while inputs are being removed -/
def WFPos (ing : Ingesting) : Prop :=
  ing.outIdx = 0 ∨
    ∃ tx, ing.block.txs[ing.txIdx]? = some tx ∧ (tx.coinbase = true ∨ tx.ins.length ≤ ing.inIdx)

theorem drop_map_sum {α : Type} (f : α → Nat) : ∀ (l : List α) (i : Nat),
    ((l.drop i).map f).sum =
      match l[i]? with
      | none => 0
      | some x => f x + ((l.drop (i + 1)).map f).sum
  | [], i => by simp
  | x :: xs, 0 => by simp
  | x :: xs, i + 1 => by
    have := drop_map_sum f xs i
    simpa using this

theorem remWork_start (b : Block) : remWork ⟨b, 0, 0, 0, {}⟩ = blockWork b := by
  unfold remWork blockWork
  cases htx : b.txs with
  | nil => simp
  | cons tx txs =>
    simp only [List.getElem?_cons_zero, curWork, List.drop_succ_cons, List.drop_zero, List.map_cons,
      List.sum_cons, txSteps, Nat.sub_zero]
    congr 1
    cases tx.coinbase <;> simp
    intro h; simp [h]


/-! ### The index normalisation at a pause is harmless -/

/-- once the inputs of the current transaction are done, the value of `inIdx` does not matter -/
theorem ingestLoop_inIdx_irrelevant : ∀ (fuel : Nat) (u : UtxoSet) (ing : Ingesting) (b : Nat) (tx : Tx),
    ing.block.txs[ing.txIdx]? = some tx → (tx.coinbase = true ∨ tx.ins.length ≤ ing.inIdx) →
    ingestLoop fuel u { ing with inIdx := tx.ins.length } b = ingestLoop fuel u ing b
  | 0, _, _, _, _, _, _ => rfl
  | fuel + 1, u, ing, b, tx, htx, hin => by
    by_cases hout : ing.outIdx < tx.outs.length
    · obtain ⟨t, ht⟩ : ∃ t, tx.outs[ing.outIdx]? = some t := ⟨_, List.getElem?_eq_getElem hout⟩
      rw [ingestLoop_output fuel u ing b tx t htx hin ht,
        ingestLoop_output fuel u { ing with inIdx := tx.ins.length } b tx t htx
          (Or.inr (Nat.le_refl _)) ht]
      by_cases hb : b = 0
      · simp only [hb, if_true]
      · simp only [hb, if_false]
        cases insertOutput u ing.delta tx.txid ing.outIdx t with
        | trap m => rfl
        | ok u' d' =>
          exact ingestLoop_inIdx_irrelevant fuel u' { ing with outIdx := ing.outIdx + 1, delta := d' }
            (b - 1) tx htx hin
    · rw [ingestLoop_next fuel u ing b tx htx hin (by omega),
        ingestLoop_next fuel u { ing with inIdx := tx.ins.length } b tx htx
          (Or.inr (Nat.le_refl _)) (by simp only; omega)]

theorem removeInput_frame' (u : UtxoSet) (d : Delta) (o : OutPoint) :
    match removeInput u d o with
    | .ok u' _ => u'.ingesting = u.ingesting ∧ u'.nextHeight = u.nextHeight
    | .trap _ => True := by
  cases hf : AList.find? u.utxos o with
  | none => simp [removeInput, hf]
  | some v =>
    obtain ⟨t, ht⟩ := v
    cases ha : t.addr with
    | none => simp [removeInput, hf, ha]
    | some a =>
      simp only [removeInput, hf, ha]
      by_cases hc : (!u.index.contains (⟨a, ht, o⟩ : IdxEntry)) = true
      · simp only [hc, if_true]
      · simp only [hc]
        generalize (if (t.value != 0) = true then
            match AList.find? u.balances a with
            | none => none
            | some bal =>
              if bal < t.value then none
              else if bal - t.value = 0 then some (AList.erase u.balances a)
              else some (AList.insert u.balances a (bal - t.value))
          else some u.balances) = B
        cases B with
        | none => trivial
        | some bal =>
          simp only
          cases d.remove a o t ht with
          | none => trivial
          | some d' => exact ⟨rfl, rfl⟩

theorem removeInput_frame (u u' : UtxoSet) (d d' : Delta) (o : OutPoint)
    (h : removeInput u d o = .ok u' d') :
    u'.ingesting = u.ingesting ∧ u'.nextHeight = u.nextHeight := by
  have := removeInput_frame' u d o
  rw [h] at this
  exact this

theorem insertOutput_frame (u u' : UtxoSet) (d d' : Delta) (txid vout : Nat) (t : TxOut)
    (h : insertOutput u d txid vout t = .ok u' d') :
    u'.ingesting = u.ingesting ∧ u'.nextHeight = u.nextHeight := by
  unfold insertOutput at h
  split at h
  · cases h; exact ⟨rfl, rfl⟩
  · cases ha : t.addr with
    | none =>
      simp only [ha] at h
      split at h
      · cases h
      · cases h; exact ⟨rfl, rfl⟩
    | some a =>
      simp only [ha] at h
      cases hd : d.insert a ⟨txid, vout⟩ t u.nextHeight with
      | none => simp only [hd] at h; cases h
      | some d1 =>
        simp only [hd] at h
        split at h
        · cases h
        · cases h; exact ⟨rfl, rfl⟩


/-! ### What each kind of iteration does to the measures -/

theorem pureStep_fin (u : UtxoSet) (ing : Ingesting) (h : pureStep u ing = .fin) :
    ing.block.txs[ing.txIdx]? = none ∧ remWork ing = 0 := by
  cases htx : ing.block.txs[ing.txIdx]? with
  | none => exact ⟨rfl, by simp [remWork, htx]⟩
  | some tx =>
    simp only [pureStep, htx] at h
    split at h
    · cases h
    · split at h <;> cases h

theorem pureStep_free (u : UtxoSet) (ing ing' : Ingesting) (h : pureStep u ing = .free ing') :
    ing'.block = ing.block ∧ ing'.txIdx = ing.txIdx + 1 ∧ ing.txIdx < ing.block.txs.length ∧
      remWork ing' = remWork ing ∧ WFPos ing' := by
  cases htx : ing.block.txs[ing.txIdx]? with
  | none => simp [pureStep, htx] at h
  | some tx =>
    have hlt : ing.txIdx < ing.block.txs.length := (List.getElem?_eq_some_iff.1 htx).1
    simp only [pureStep, htx] at h
    split at h
    · cases h
    · rename_i hin
      split at h
      · cases h
      · rename_i hout
        simp only [PStep.free.injEq] at h
        subst h
        refine ⟨rfl, rfl, hlt, ?_, Or.inl rfl⟩
        have hcur : curWork ing tx = 0 := by
          unfold curWork
          simp only [hin, Bool.false_eq_true, if_false]
          omega
        simp only [remWork, htx, hcur, Nat.zero_add]
        rw [drop_map_sum txSteps ing.block.txs (ing.txIdx + 1)]
        cases ing.block.txs[ing.txIdx + 1]? with
        | none => rfl
        | some tx' =>
          simp only [curWork, txSteps, Nat.sub_zero]
          congr 1
          cases tx'.coinbase <;> simp
          intro h0; simp [h0]

/-- a budgeted step: facts about the position stored at a pause -/
theorem pureStep_work_pause (u : UtxoSet) (ing ing1 : Ingesting)
    (r : Except String (UtxoSet × Ingesting)) (h : pureStep u ing = .work ing1 r) :
    ing.txIdx < ing.block.txs.length ∧ 1 ≤ remWork ing ∧ ing1.block = ing.block ∧
      (WFPos ing → remWork ing1 = remWork ing ∧ WFPos ing1 ∧ ing1.txIdx = ing.txIdx ∧
        (∀ fuel b, ingestLoop fuel u ing1 b = ingestLoop fuel u ing b) ∧
        ∃ r', pureStep u ing1 = .work ing1 r') := by
  cases htx : ing.block.txs[ing.txIdx]? with
  | none => simp [pureStep, htx] at h
  | some tx =>
    have hlt : ing.txIdx < ing.block.txs.length := (List.getElem?_eq_some_iff.1 htx).1
    simp only [pureStep, htx] at h
    split at h
    · rename_i hin
      simp only [PStep.work.injEq] at h
      obtain ⟨h1, h2⟩ := h
      subst h1
      have hin' : tx.coinbase = false ∧ ing.inIdx < tx.ins.length := by simpa using hin
      refine ⟨hlt, ?_, rfl, ?_⟩
      · simp only [remWork, htx, curWork, hin, if_true]; omega
      · intro hwf
        have h0 : ing.outIdx = 0 := by
          rcases hwf with h0 | ⟨tx', htx', hph⟩
          · exact h0
          · rw [htx] at htx'; cases htx'
            rcases hph with hc | hl
            · rw [hin'.1] at hc; cases hc
            · omega
        have : ({ ing with outIdx := 0 } : Ingesting) = ing := by
          cases ing; simp only at h0; subst h0; rfl
        rw [this]
        refine ⟨rfl, hwf, rfl, fun _ _ => rfl, ?_⟩
        refine ⟨r, ?_⟩
        simp only [pureStep, htx, hin, if_true]
        rw [this, h2]
    · rename_i hin
      split at h
      · rename_i hout
        simp only [PStep.work.injEq] at h
        obtain ⟨h1, _⟩ := h
        subst h1
        have hph : tx.coinbase = true ∨ tx.ins.length ≤ ing.inIdx := by
          cases hc : tx.coinbase with
          | true => exact Or.inl rfl
          | false => right; simp [hc] at hin; exact hin
        have hin1 : (!tx.coinbase && decide (tx.ins.length < tx.ins.length)) = false := by simp
        refine ⟨hlt, ?_, rfl, ?_⟩
        · simp only [remWork, htx, curWork]; omega
        · intro _
          refine ⟨?_, Or.inr ⟨tx, htx, Or.inr (Nat.le_refl _)⟩, rfl,
            fun fuel b => ingestLoop_inIdx_irrelevant fuel u ing b tx htx hph, ?_⟩
          · simp only [remWork, htx, curWork, hin, hin1, Bool.false_eq_true, if_false]
          · refine Exists.intro ?w ?h
            case h =>
              simp only [pureStep, htx, hin1, hout, if_true, if_false, Bool.false_eq_true]
              rfl
      · cases h

/-- a budgeted step that succeeds: facts about the next position -/
theorem pureStep_work_ok (u u' : UtxoSet) (ing ing1 ing' : Ingesting)
    (h : pureStep u ing = .work ing1 (.ok (u', ing'))) :
    ing'.block = ing.block ∧ ing'.txIdx = ing.txIdx ∧ remWork ing' + 1 = remWork ing ∧
      (WFPos ing → WFPos ing') ∧ u'.ingesting = u.ingesting ∧ u'.nextHeight = u.nextHeight := by
  cases htx : ing.block.txs[ing.txIdx]? with
  | none => simp [pureStep, htx] at h
  | some tx =>
    simp only [pureStep, htx] at h
    split at h
    · rename_i hin
      have hin' : tx.coinbase = false ∧ ing.inIdx < tx.ins.length := by simpa using hin
      simp only [PStep.work.injEq] at h
      obtain ⟨_, h2⟩ := h
      cases ho : tx.ins[ing.inIdx]? with
      | none => simp [ho] at h2
      | some o =>
        simp only [ho] at h2
        cases hr : removeInput u ing.delta o with
        | trap m => simp [hr] at h2
        | ok u1 d1 =>
          simp only [hr, Except.ok.injEq, Prod.mk.injEq] at h2
          obtain ⟨rfl, rfl⟩ := h2
          obtain ⟨f1, f2⟩ := removeInput_frame u u1 ing.delta d1 o hr
          refine ⟨rfl, rfl, ?_, ?_, f1, f2⟩
          · simp only [remWork, htx, curWork, hin, if_true]
            by_cases hnext : ing.inIdx + 1 < tx.ins.length
            · simp only [hin'.1, Bool.not_false, hnext, decide_true, Bool.and_self, if_true]; omega
            · simp only [hin'.1, Bool.not_false, hnext, decide_false, Bool.and_false,
                Bool.false_eq_true, if_false]; omega
          · intro hwf
            rcases hwf with h0 | ⟨tx', htx', hph⟩
            · exact Or.inl h0
            · rw [htx] at htx'; cases htx'
              rcases hph with hc | hl
              · rw [hin'.1] at hc; cases hc
              · omega
    · rename_i hin
      split at h
      · rename_i hout
        simp only [PStep.work.injEq] at h
        obtain ⟨_, h2⟩ := h
        have hph : tx.coinbase = true ∨ tx.ins.length ≤ ing.inIdx := by
          cases hc : tx.coinbase with
          | true => exact Or.inl rfl
          | false => right; simp [hc] at hin; exact hin
        cases ho : tx.outs[ing.outIdx]? with
        | none => simp [ho] at h2
        | some t =>
          simp only [ho] at h2
          cases hr : insertOutput u ing.delta tx.txid ing.outIdx t with
          | trap m => simp [hr] at h2
          | ok u1 d1 =>
            simp only [hr, Except.ok.injEq, Prod.mk.injEq] at h2
            obtain ⟨rfl, rfl⟩ := h2
            obtain ⟨f1, f2⟩ := insertOutput_frame u u1 ing.delta d1 tx.txid ing.outIdx t hr
            refine ⟨rfl, rfl, ?_, fun _ => Or.inr ⟨tx, htx, hph⟩, f1, f2⟩
            simp only [remWork, htx, curWork, hin]
            omega
      · cases h


/-! ### Fuel does not matter once it covers the remaining iterations -/

theorem ingestLoop_fuel : ∀ (f1 f2 : Nat) (u : UtxoSet) (ing : Ingesting) (b : Nat),
    remIter ing ≤ f1 → remIter ing ≤ f2 → ingestLoop f1 u ing b = ingestLoop f2 u ing b
  | 0, _, _, ing, _, h1, _ => by unfold remIter at h1; omega
  | _ + 1, 0, _, ing, _, _, h2 => by unfold remIter at h2; omega
  | f1 + 1, f2 + 1, u, ing, b, h1, h2 => by
    rw [ingestLoop_succ, ingestLoop_succ, loopStep_eq]
    cases hp : pureStep u ing with
    | fin => rfl
    | free ing' =>
      obtain ⟨hb, ht, hlt, hw, _⟩ := pureStep_free u ing ing' hp
      simp only
      apply ingestLoop_fuel f1 f2 u ing' b <;>
        (unfold remIter at h1 h2 ⊢; rw [hb, ht, hw]; omega)
    | work ing1 r =>
      simp only
      by_cases hb : b = 0
      · simp only [hb, if_true]
      · simp only [hb, if_false]
        cases r with
        | error m => rfl
        | ok p =>
          obtain ⟨u', ing'⟩ := p
          obtain ⟨hbk, ht, hw, _⟩ := pureStep_work_ok u u' ing ing1 ing' hp
          obtain ⟨hlt, _⟩ := pureStep_work_pause u ing ing1 _ hp
          simp only
          apply ingestLoop_fuel f1 f2 u' ing' (b - 1) <;>
            (unfold remIter at h1 h2 ⊢; rw [hbk, ht]; omega)

/-- the loop with exactly enough fuel: the fuel-free reading of `ingestLoop` -/
def run (u : UtxoSet) (ing : Ingesting) (b : Nat) : RoundResult :=
  ingestLoop (remIter ing) u ing b

theorem ingestLoop_eq_run (fuel : Nat) (u : UtxoSet) (ing : Ingesting) (b : Nat)
    (h : remIter ing ≤ fuel) : ingestLoop fuel u ing b = run u ing b :=
  ingestLoop_fuel fuel (remIter ing) u ing b h (Nat.le_refl _)

/-- one iteration of `run` -/
def runNext (u : UtxoSet) (ing : Ingesting) (b : Nat) : RoundResult :=
  match pureStep u ing with
  | .fin => .done { u with ingesting := none, nextHeight := u.nextHeight + 1 } b
  | .free ing' => run u ing' b
  | .work ing1 r =>
    if b = 0 then .paused { u with ingesting := some ing1 }
    else match r with
      | .error m => .trap m
      | .ok (u', ing') => run u' ing' (b - 1)

theorem run_unfold (u : UtxoSet) (ing : Ingesting) (b : Nat) : run u ing b = runNext u ing b := by
  unfold run runNext
  obtain ⟨k, hk⟩ : ∃ k, remIter ing = k + 1 := ⟨remWork ing + (ing.block.txs.length - ing.txIdx), rfl⟩
  rw [hk, ingestLoop_succ, loopStep_eq]
  cases hp : pureStep u ing with
  | fin => rfl
  | free ing' =>
    obtain ⟨hb, ht, hlt, hw, _⟩ := pureStep_free u ing ing' hp
    simp only
    apply ingestLoop_eq_run
    unfold remIter at hk ⊢; rw [hb, ht, hw]; omega
  | work ing1 r =>
    simp only
    by_cases hb : b = 0
    · simp only [hb, if_true]
    · simp only [hb, if_false]
      cases r with
      | error m => rfl
      | ok p =>
        obtain ⟨u', ing'⟩ := p
        obtain ⟨hbk, ht, hw, _⟩ := pureStep_work_ok u u' ing ing1 ing' hp
        simp only
        apply ingestLoop_eq_run
        unfold remIter at hk ⊢; rw [hbk, ht]; omega

/-! ### Pause / resume determinism and exact budget accounting -/

/-- what a run with budget `b1` tells about the run with budget `b1 + b2` -/
def AddPost (u : UtxoSet) (ing : Ingesting) (b1 b2 : Nat) : RoundResult → Prop
  | .done u' w => run u ing (b1 + b2) = .done u' (w + b2) ∧ remWork ing + w = b1
  | .trap m => run u ing (b1 + b2) = .trap m
  | .paused u1 => ∃ u' ing1, u1 = { u' with ingesting := some ing1 } ∧
      u'.ingesting = u.ingesting ∧ u'.nextHeight = u.nextHeight ∧
      WFPos ing1 ∧ ing1.block = ing.block ∧
      remWork ing1 + b1 = remWork ing ∧ 1 ≤ remWork ing1 ∧ remIter ing1 ≤ remIter ing ∧
      run u ing (b1 + b2) = run u' ing1 b2 ∧ ∃ r', pureStep u' ing1 = .work ing1 r'

theorem run_add_aux : ∀ (n : Nat) (u : UtxoSet) (ing : Ingesting) (b1 b2 : Nat),
    remIter ing ≤ n → WFPos ing → AddPost u ing b1 b2 (run u ing b1)
  | 0, _, ing, _, _, h, _ => by unfold remIter at h; omega
  | n + 1, u, ing, b1, b2, hn, hwf => by
    rw [run_unfold u ing b1]
    have hrhs := run_unfold u ing (b1 + b2)
    unfold runNext at hrhs ⊢
    cases hp : pureStep u ing with
    | fin =>
      rw [hp] at hrhs
      simp only at hrhs ⊢
      have := (pureStep_fin u ing hp).2
      exact ⟨by rw [hrhs], by omega⟩
    | free ing' =>
      rw [hp] at hrhs
      simp only at hrhs ⊢
      obtain ⟨hb, ht, hlt, hw, hwf'⟩ := pureStep_free u ing ing' hp
      have hn' : remIter ing' ≤ n := by unfold remIter at hn ⊢; rw [hb, ht, hw]; omega
      have hle : remIter ing' ≤ remIter ing := by unfold remIter; rw [hb, ht, hw]; omega
      have ih := run_add_aux n u ing' b1 b2 hn' hwf'
      cases hr : run u ing' b1 with
      | done u' w => rw [hr] at ih; exact ⟨by rw [hrhs]; exact ih.1, by rw [← hw]; exact ih.2⟩
      | trap m => rw [hr] at ih; show run u ing (b1 + b2) = _; rw [hrhs]; exact ih
      | paused u1 =>
        rw [hr] at ih
        obtain ⟨u', ing1, e1, e2, e3, e4, e5, e6, e7, e8, e9, e10⟩ := ih
        exact ⟨u', ing1, e1, e2, e3, e4, e5.trans hb, by rw [← hw]; exact e6, e7, by omega,
          by rw [hrhs]; exact e9, e10⟩
    | work ing1 r =>
      rw [hp] at hrhs
      simp only at hrhs ⊢
      obtain ⟨hlt, hw1, hbk1, hpause⟩ := pureStep_work_pause u ing ing1 r hp
      by_cases hb : b1 = 0
      · subst hb
        simp only [if_true]
        obtain ⟨q1, q2, q3, q4, q5⟩ := hpause hwf
        refine ⟨u, ing1, rfl, rfl, rfl, q2, hbk1, by omega, by omega, ?_, ?_, q5⟩
        · unfold remIter; rw [hbk1, q3, q1]; omega
        · simp only [Nat.zero_add]
          have hi : remIter ing1 = remIter ing := by unfold remIter; rw [hbk1, q3, q1]
          unfold run
          rw [hi, q4]
      · have hb' : ¬ b1 + b2 = 0 := by omega
        simp only [hb, hb', if_false] at hrhs ⊢
        cases r with
        | error m => exact hrhs
        | ok p =>
          obtain ⟨u', ing'⟩ := p
          simp only at hrhs ⊢
          obtain ⟨hbk, ht, hw, hwf', hi, hh⟩ := pureStep_work_ok u u' ing ing1 ing' hp
          have hn' : remIter ing' ≤ n := by unfold remIter at hn ⊢; rw [hbk, ht]; omega
          have hle : remIter ing' ≤ remIter ing := by unfold remIter; rw [hbk, ht]; omega
          have ih := run_add_aux n u' ing' (b1 - 1) b2 hn' (hwf' hwf)
          have eb : b1 - 1 + b2 = b1 + b2 - 1 := by omega
          rw [← eb] at hrhs
          cases hr : run u' ing' (b1 - 1) with
          | done u2 w => rw [hr] at ih; exact ⟨by rw [hrhs]; exact ih.1, by have := ih.2; omega⟩
          | trap m => rw [hr] at ih; show run u ing (b1 + b2) = _; rw [hrhs]; exact ih
          | paused u1 =>
            rw [hr] at ih
            obtain ⟨u2, ing2, e1, e2, e3, e4, e5, e6, e7, e8, e9, e10⟩ := ih
            exact ⟨u2, ing2, e1, e2.trans hi, e3.trans hh, e4, e5.trans hbk, by omega, e7, by omega,
              by rw [hrhs]; exact e9, e10⟩

/-- **Pause/resume determinism with exact accounting.** From a well-formed position:
    * `.done u' w` with budget `b1`: exactly `remWork ing` units were consumed, and any larger
      budget gives the same state with the surplus added;
    * `.trap m`: any larger budget traps identically;
    * `.paused u1`: all of `b1` was consumed, at least one step remains, and running on from the
      stored position with `b2` is the run with `b1 + b2` from the start. -/
theorem run_add (u : UtxoSet) (ing : Ingesting) (b1 b2 : Nat) (hwf : WFPos ing) :
    AddPost u ing b1 b2 (run u ing b1) :=
  run_add_aux (remIter ing) u ing b1 b2 (Nat.le_refl _) hwf


/-! ### Rounds: `ingestBlock`, then `ingestContinue` as often as needed -/

/-- `u1` is a stable set paused inside block `blk`: `u1 = { u' with ingesting := some ing }` with
    `ing` a well-formed, normalised position at which a budgeted step is due -/
structure PausedIn (u1 : UtxoSet) (blk : Block) (u' : UtxoSet) (ing : Ingesting) : Prop where
  eq : u1 = { u' with ingesting := some ing }
  clean : u'.ingesting = none
  wf : WFPos ing
  block : ing.block = blk
  fuel : remIter ing ≤ blockSteps blk + 2
  todo : 1 ≤ remWork ing
  normal : ∃ r, pureStep u' ing = .work ing r

theorem remIter_start (b : Block) : remIter ⟨b, 0, 0, 0, {}⟩ ≤ blockSteps b + 2 := by
  unfold remIter
  rw [remWork_start]
  have := blockWork_le b
  simp only [Nat.sub_zero]
  omega

theorem WFPos_start (b : Block) : WFPos ⟨b, 0, 0, 0, {}⟩ := Or.inl rfl

theorem ingestBlock_eq_run (u : UtxoSet) (blk : Block) (b : Nat) (hni : u.ingesting = none) :
    u.ingestBlock blk b = run u ⟨blk, 0, 0, 0, {}⟩ b := by
  unfold ingestBlock
  rw [hni]
  exact ingestLoop_eq_run _ u _ b (remIter_start blk)

theorem ingestContinue_paused {u1 : UtxoSet} {blk : Block} {u' : UtxoSet} {ing : Ingesting}
    (h : PausedIn u1 blk u' ing) (b : Nat) : u1.ingestContinue b = some (run u' ing b) := by
  have hu : ({ u' with ingesting := none } : UtxoSet) = u' := by
    have := h.clean
    cases u'; simp only at this; subst this; rfl
  unfold ingestContinue
  rw [h.eq]
  simp only
  rw [hu, h.block]
  exact congrArg some (ingestLoop_eq_run _ u' ing b h.fuel)

theorem paused_decomp_unique (a b : UtxoSet) (i j : Ingesting)
    (h : ({ a with ingesting := some i } : UtxoSet) = { b with ingesting := some j })
    (hi : a.ingesting = b.ingesting) : a = b ∧ i = j := by
  cases a; cases b
  simp only [UtxoSet.mk.injEq, Option.some.injEq] at h hi ⊢
  obtain ⟨h1, h2, h3, h4, h5⟩ := h
  exact ⟨⟨h1, h2, h3, h4, hi⟩, h5⟩

/-- what one round with budget `b1` from a position tells about all larger budgets -/
def RoundPost (blk : Block) (u : UtxoSet) (ing : Ingesting) (b1 : Nat) : RoundResult → Prop
  | .done u' w => remWork ing + w = b1 ∧ ∀ b2, run u ing (b1 + b2) = .done u' (w + b2)
  | .trap m => ∀ b2, run u ing (b1 + b2) = .trap m
  | .paused u1 => ∃ u' ing1, PausedIn u1 blk u' ing1 ∧ remWork ing1 + b1 = remWork ing ∧
      u'.nextHeight = u.nextHeight ∧ ∀ b2, run u ing (b1 + b2) = run u' ing1 b2

theorem run_round (blk : Block) (u : UtxoSet) (ing : Ingesting) (b1 : Nat) (hni : u.ingesting = none)
    (hwf : WFPos ing) (hblk : ing.block = blk) (hfuel : remIter ing ≤ blockSteps blk + 2) :
    RoundPost blk u ing b1 (run u ing b1) := by
  cases hr : run u ing b1 with
  | done u' w =>
    refine ⟨?_, fun b2 => ?_⟩
    · have := run_add u ing b1 0 hwf; rw [hr] at this; exact this.2
    · have := run_add u ing b1 b2 hwf; rw [hr] at this; exact this.1
  | trap m =>
    intro b2
    have := run_add u ing b1 b2 hwf; rw [hr] at this; exact this
  | paused u1 =>
    have h0 := run_add u ing b1 0 hwf
    rw [hr] at h0
    obtain ⟨u', ing1, e1, e2, e3, e4, e5, e6, e7, e8, _, e10⟩ := h0
    refine ⟨u', ing1, ⟨e1, e2.trans hni, e4, e5.trans hblk, by omega, e7, e10⟩, e6, e3, fun b2 => ?_⟩
    have := run_add u ing b1 b2 hwf
    rw [hr] at this
    obtain ⟨u'', ing2, f1, f2, _, _, _, _, _, _, f9, _⟩ := this
    obtain ⟨rfl, rfl⟩ := paused_decomp_unique u'' u' ing2 ing1 (f1.symm.trans e1) (f2.trans e2.symm)
    exact f9


/-- a round with budget `0` on a paused set changes nothing -/
theorem continue_zero {u1 : UtxoSet} {blk : Block} {u' : UtxoSet} {ing : Ingesting}
    (h : PausedIn u1 blk u' ing) : u1.ingestContinue 0 = some (.paused u1) := by
  rw [ingestContinue_paused h 0, run_unfold]
  obtain ⟨r, hr⟩ := h.normal
  unfold runNext
  rw [hr]
  simp only [if_true]
  rw [h.eq]

/-- every further round on a paused set: the result and what it says about larger budgets -/
theorem continue_round {u1 : UtxoSet} {blk : Block} {u' : UtxoSet} {ing : Ingesting}
    (h : PausedIn u1 blk u' ing) (b : Nat) :
    u1.ingestContinue b = some (run u' ing b) ∧ RoundPost blk u' ing b (run u' ing b) :=
  ⟨ingestContinue_paused h b, run_round blk u' ing b h.clean h.wf h.block h.fuel⟩

/-- rounds after the first: resume as long as the previous round paused -/
def contRounds : RoundResult → List Nat → RoundResult
  | r, [] => r
  | .paused u1, b :: bs =>
    match u1.ingestContinue b with
    | some r => contRounds r bs
    | none => .trap "nothing to continue"
  | .done u w, _ :: _ => .done u w
  | .trap m, _ :: _ => .trap m

/-- `ingest_block` with budget `b0`, then `ingest_block_continue` with the budgets `bs` -/
def ingestSliced (u : UtxoSet) (blk : Block) (b0 : Nat) (bs : List Nat) : RoundResult :=
  contRounds (u.ingestBlock blk b0) bs

theorem contRounds_run (blk : Block) : ∀ (bs : List Nat) (u : UtxoSet) (ing : Ingesting) (B : Nat),
    u.ingesting = none → WFPos ing → ing.block = blk → remIter ing ≤ blockSteps blk + 2 →
    ∃ k, k ≤ bs.length ∧ contRounds (run u ing B) bs = run u ing (B + (bs.take k).sum) ∧
      (k < bs.length → ¬ (run u ing (B + (bs.take k).sum)).isPaused)
  | [], u, ing, B, _, _, _, _ => ⟨0, Nat.le_refl _, by simp [contRounds], by simp⟩
  | b :: bs, u, ing, B, hni, hwf, hblk, hfuel => by
    have hpost := run_round blk u ing B hni hwf hblk hfuel
    cases hr : run u ing B with
    | done u' w =>
      exact ⟨0, Nat.zero_le _, by simp [contRounds, hr], by simp [hr, RoundResult.isPaused]⟩
    | trap m =>
      exact ⟨0, Nat.zero_le _, by simp [contRounds, hr], by simp [hr, RoundResult.isPaused]⟩
    | paused u1 =>
      rw [hr] at hpost
      obtain ⟨u', ing1, hp, _, _, hall⟩ := hpost
      obtain ⟨k, hk, h1, h2⟩ := contRounds_run blk bs u' ing1 b hp.clean hp.wf hp.block hp.fuel
      refine ⟨k + 1, by simp; omega, ?_, ?_⟩
      · simp only [contRounds, ingestContinue_paused hp b, List.take_succ_cons, List.sum_cons]
        rw [h1, hall]
      · intro hlt
        simp only [List.take_succ_cons, List.sum_cons]
        rw [hall]
        exact h2 (by simp at hlt; omega)

/-- **The sliced run is an unsliced run**: the rounds `b0, bs` stop at the first round `k` that
    does not pause, and the result is that of a single `ingestBlock` with the budgets used so far
    added up. -/
theorem ingestSliced_eq (u : UtxoSet) (blk : Block) (b0 : Nat) (bs : List Nat)
    (hni : u.ingesting = none) :
    ∃ k, k ≤ bs.length ∧
      ingestSliced u blk b0 bs = u.ingestBlock blk (b0 + (bs.take k).sum) ∧
      (k < bs.length → ¬ (u.ingestBlock blk (b0 + (bs.take k).sum)).isPaused) := by
  obtain ⟨k, hk, h1, h2⟩ := contRounds_run blk bs u ⟨blk, 0, 0, 0, {}⟩ b0 hni (WFPos_start blk) rfl
    (remIter_start blk)
  refine ⟨k, hk, ?_, ?_⟩
  · unfold ingestSliced
    rw [ingestBlock_eq_run u blk b0 hni, ingestBlock_eq_run u blk _ hni]
    exact h1
  · rw [ingestBlock_eq_run u blk _ hni]
    exact h2

/-- what one unsliced call tells about all larger budgets -/
theorem ingestBlock_round (u : UtxoSet) (blk : Block) (B : Nat) (hni : u.ingesting = none) :
    match u.ingestBlock blk B with
    | .done u' w => blockWork blk + w = B ∧ ∀ b2, u.ingestBlock blk (B + b2) = .done u' (w + b2)
    | .trap m => ∀ b2, u.ingestBlock blk (B + b2) = .trap m
    | .paused u1 => ∃ u' ing1, PausedIn u1 blk u' ing1 ∧ remWork ing1 + B = blockWork blk ∧
        u'.nextHeight = u.nextHeight ∧
        ∀ b2, u1.ingestContinue b2 = some (u.ingestBlock blk (B + b2)) := by
  have hpost := run_round blk u ⟨blk, 0, 0, 0, {}⟩ B hni (WFPos_start blk) rfl (remIter_start blk)
  rw [ingestBlock_eq_run u blk B hni]
  cases hr : run u ⟨blk, 0, 0, 0, {}⟩ B with
  | done u' w =>
    rw [hr] at hpost
    simp only
    refine ⟨by rw [← remWork_start]; exact hpost.1, fun b2 => ?_⟩
    rw [ingestBlock_eq_run u blk _ hni]; exact hpost.2 b2
  | trap m =>
    rw [hr] at hpost
    simp only
    intro b2
    rw [ingestBlock_eq_run u blk _ hni]; exact hpost b2
  | paused u1 =>
    rw [hr] at hpost
    obtain ⟨u', ing1, hp, hw, hh, hall⟩ := hpost
    simp only
    refine ⟨u', ing1, hp, by rw [← remWork_start]; exact hw, hh, fun b2 => ?_⟩
    rw [ingestContinue_paused hp b2, ingestBlock_eq_run u blk _ hni, hall]

/-- a block that can be ingested completely is ingested completely, to the same state, by every
    budget that covers its work -/
theorem ingestBlock_done_any (u : UtxoSet) (blk : Block) (hni : u.ingesting = none)
    (B0 w0 : Nat) (u' : UtxoSet) (h : u.ingestBlock blk B0 = .done u' w0) (B : Nat)
    (hB : blockWork blk ≤ B) : u.ingestBlock blk B = .done u' (B - blockWork blk) := by
  have h0 := ingestBlock_round u blk B0 hni
  rw [h] at h0
  obtain ⟨hw0, _⟩ := h0
  have h1 := ingestBlock_round u blk (blockWork blk) hni
  cases hr : u.ingestBlock blk (blockWork blk) with
  | done u2 w2 =>
    rw [hr] at h1
    obtain ⟨hw2, hall⟩ := h1
    have hB0 := hall (B0 - blockWork blk)
    have e : blockWork blk + (B0 - blockWork blk) = B0 := by omega
    rw [e, h] at hB0
    simp only [RoundResult.done.injEq] at hB0
    have hBB := hall (B - blockWork blk)
    have e2 : blockWork blk + (B - blockWork blk) = B := by omega
    rw [e2] at hBB
    rw [hBB, hB0.1]
    congr 1
    omega
  | trap m =>
    rw [hr] at h1
    have := h1 (B0 - blockWork blk)
    have e : blockWork blk + (B0 - blockWork blk) = B0 := by omega
    rw [e, h] at this
    cases this
  | paused u1 =>
    rw [hr] at h1
    obtain ⟨_, ing1, hp, hw, _⟩ := h1
    have := hp.todo
    omega


/-! ### What a successful step tells -/

theorem removeInput_inv' (u : UtxoSet) (d : Delta) (o : OutPoint) :
    match removeInput u d o with
    | .ok _ d' => ∃ t hh, AList.find? u.utxos o = some (t, hh) ∧ deltaRemove d o t hh = some d'
    | .trap _ => True := by
  cases hf : AList.find? u.utxos o with
  | none => simp [removeInput, hf]
  | some v =>
    obtain ⟨t, ht⟩ := v
    cases ha : t.addr with
    | none =>
      simp only [removeInput, hf, ha]
      exact ⟨t, ht, rfl, by simp [deltaRemove, ha]⟩
    | some a =>
      simp only [removeInput, hf, ha]
      by_cases hc : (!u.index.contains (⟨a, ht, o⟩ : IdxEntry)) = true
      · simp only [hc, if_true]
      · simp only [hc]
        generalize (if (t.value != 0) = true then
            match AList.find? u.balances a with
            | none => none
            | some bal =>
              if bal < t.value then none
              else if bal - t.value = 0 then some (AList.erase u.balances a)
              else some (AList.insert u.balances a (bal - t.value))
          else some u.balances) = B
        cases B with
        | none => trivial
        | some bal =>
          simp only
          cases hd : d.remove a o t ht with
          | none => trivial
          | some d' => exact ⟨t, ht, rfl, by simp [deltaRemove, ha, hd]⟩

theorem removeInput_inv (u u' : UtxoSet) (d d' : Delta) (o : OutPoint)
    (h : removeInput u d o = .ok u' d') :
    ∃ t hh, AList.find? u.utxos o = some (t, hh) ∧ deltaRemove d o t hh = some d' := by
  have := removeInput_inv' u d o
  rw [h] at this
  exact this

theorem insertOutput_inv' (u : UtxoSet) (d : Delta) (txid vout : Nat) (t : TxOut) :
    match insertOutput u d txid vout t with
    | .ok _ d' => deltaInsert d ⟨txid, vout⟩ t u.nextHeight = some d' ∧
        (t.opret = false → AList.find? u.utxos ⟨txid, vout⟩ = none)
    | .trap _ => True := by
  cases hop : t.opret with
  | true => simp [insertOutput, hop, deltaInsert]
  | false =>
    cases ha : t.addr with
    | none =>
      simp only [insertOutput, hop, ha, Bool.false_eq_true, if_false]
      cases hc : AList.contains u.utxos ⟨txid, vout⟩ with
      | true => simp
      | false =>
        simp only [Bool.false_eq_true, if_false]
        refine ⟨by simp [deltaInsert, hop, ha], fun _ => ?_⟩
        simpa [AList.contains] using hc
    | some a =>
      simp only [insertOutput, hop, ha, Bool.false_eq_true, if_false]
      cases hd : d.insert a ⟨txid, vout⟩ t u.nextHeight with
      | none => simp
      | some d1 =>
        simp only
        cases hc : AList.contains u.utxos ⟨txid, vout⟩ with
        | true => simp
        | false =>
          simp only [Bool.false_eq_true, if_false]
          refine ⟨by simp [deltaInsert, hop, ha, hd], fun _ => ?_⟩
          simpa [AList.contains] using hc

theorem insertOutput_inv (u u' : UtxoSet) (d d' : Delta) (txid vout : Nat) (t : TxOut)
    (h : insertOutput u d txid vout t = .ok u' d') :
    deltaInsert d ⟨txid, vout⟩ t u.nextHeight = some d' ∧
      (t.opret = false → AList.find? u.utxos ⟨txid, vout⟩ = none) := by
  have := insertOutput_inv' u d txid vout t
  rw [h] at this
  exact this

end UtxoSet
end Btc
