import BtcModel.Lemmas.QueryInv
import BtcModel.Lemmas.TreeExtend

/-!
  Helper lemmas for C06 (pagination of `get_utxos`): prefixes of root paths are root paths,
  `AddressUtxoSet::into_iter` never panics whatever the offset, and evaluation helpers for
  concrete examples (`multiIter` is compiled by well-founded recursion, so `decide` cannot
  evaluate `addressUtxos` directly).
-/
namespace Btc
open Btc.Spec Btc.State Btc.Tree

section
variable {α : Type}

mutual
/-- a non-empty prefix of a root path is the root path of its last block -/
theorem chainWithTip_prefix (h : α → Nat) (tip : Nat) : ∀ (t : Tree α), (t.blocks.map h).Nodup →
    ∀ (p s pre rest : List α) (x : α), chainWithTip h tip t = some (p, s) → p = pre ++ rest →
      pre.getLast? = some x → ∃ s', chainWithTip h (h x) t = some (pre, s')
  | .node r cs, hnd, p, s, pre, rest, x, hc, hp, hx => by
    simp only [blocks, List.map_cons, List.nodup_cons] at hnd
    cases pre with
    | nil => simp at hx
    | cons y pre' =>
      simp only [chainWithTip] at hc
      have hy : y = r ∧ ∀ q s0, chainWithTipList h tip cs = some (q, s0) → ¬ h r = tip → p = r :: q := by
        constructor
        · split at hc
          · simp only [Option.some.injEq, Prod.mk.injEq] at hc
            rw [← hc.1] at hp; simp at hp; exact hp.1.symm
          · split at hc
            · simp only [Option.some.injEq, Prod.mk.injEq] at hc
              rw [← hc.1] at hp; simp at hp; exact hp.1.symm
            · cases hc
        · intro q s0 hq hne
          simp only [hne, if_false, hq, Option.some.injEq, Prod.mk.injEq] at hc
          exact hc.1.symm
      obtain ⟨rfl, hq⟩ := hy
      cases pre' with
      | nil =>
        simp at hx; subst hx
        exact ⟨rootsOf cs, by simp [chainWithTip]⟩
      | cons z zs =>
        have hx' : (z :: zs).getLast? = some x := by simpa using hx
        split at hc
        · simp only [Option.some.injEq, Prod.mk.injEq] at hc
          rw [← hc.1] at hp; simp at hp
        · rename_i hne
          split at hc
          · rename_i q s0 hql
            have hpq := hq q s0 hql hne
            rw [hpq] at hp
            simp only [List.cons_append, List.cons.injEq, true_and] at hp
            obtain ⟨s', hs'⟩ := chainWithTipList_prefix h tip cs hnd.2 q s0 (z :: zs) rest x hql
              (by simpa using hp) hx'
            have hxm : x ∈ blocksList cs := by
              have h1 := (chainWithTipList_spec h tip cs q s0 hql).1
              apply h1
              rw [show q = z :: zs ++ rest by simpa using hp]
              exact List.mem_append_left _ (List.mem_of_getLast? hx')
            have hne' : ¬ h y = h x := fun e => hnd.1 (e ▸ List.mem_map.mpr ⟨x, hxm, rfl⟩)
            exact ⟨s', by simp only [chainWithTip, hne', if_false, hs']⟩
          · cases hc
theorem chainWithTipList_prefix (h : α → Nat) (tip : Nat) : ∀ (cs : List (Tree α)),
    ((blocksList cs).map h).Nodup →
    ∀ (p s pre rest : List α) (x : α), chainWithTipList h tip cs = some (p, s) → p = pre ++ rest →
      pre.getLast? = some x → ∃ s', chainWithTipList h (h x) cs = some (pre, s')
  | [], _, p, s, pre, rest, x, hc, _, _ => by simp [chainWithTipList] at hc
  | c :: cs, hnd, p, s, pre, rest, x, hc, hp, hx => by
    simp only [blocksList, List.map_append, List.nodup_append] at hnd
    simp only [chainWithTipList] at hc
    split at hc
    · rename_i v hv
      simp only [Option.some.injEq] at hc
      subst hc
      obtain ⟨s', hs'⟩ := chainWithTip_prefix h tip c hnd.1 p s pre rest x hv hp hx
      exact ⟨s', by simp only [chainWithTipList, hs']⟩
    · obtain ⟨s', hs'⟩ := chainWithTipList_prefix h tip cs hnd.2.1 p s pre rest x hc hp hx
      have hxm : x ∈ blocksList cs := by
        apply (chainWithTipList_spec h tip cs p s hc).1
        rw [hp]
        exact List.mem_append_left _ (List.mem_of_getLast? hx)
      have hnone : chainWithTip h (h x) c = none := by
        apply chainWithTip_none_of_not_mem
        intro hm
        exact hnd.2.2 _ hm _ (List.mem_map.mpr ⟨x, hxm, rfl⟩) rfl
      exact ⟨s', by simp only [chainWithTipList, hnone, hs']⟩
end
end

/-- with any offset, the stable reader only returns outpoints of the ledger's UTXOs of `a` -/
theorem getAddressOutpoints_offset_subset (u : UtxoSet) (l : LedgerMap) (hs : StableIs u l)
    (hl : (l.map (·.1)).Nodup) (a : Addr) (off : Option Utxo) :
    ∀ o ∈ u.getAddressOutpoints a off, o ∈ (lfor a l).map (·.outpoint) := by
  intro o ho
  rw [UtxoSet.getAddressOutpoints_notIngesting u a off hs.notIngesting] at ho
  obtain ⟨e, he, rfl⟩ := List.mem_map.mp ho
  rw [List.mem_filter] at he
  unfold UtxoSet.rangeScan at he
  have h1 := (List.mem_filter.mp ((sortBy_perm _ _).mem_iff.mp he.1)).1
  have h2 : e ∈ u.index.filter (fun e => e.addr == a) := List.mem_filter.mpr ⟨h1, he.2⟩
  have h3 := (index_filter_perm u l hs hl a).mem_iff.mp h2
  obtain ⟨x, hx, rfl⟩ := List.mem_map.mp h3
  exact List.mem_map.mpr ⟨x, hx, rfl⟩

/-- `AddressUtxoSet::into_iter` never panics, whatever the offset is -/
theorem addressUtxos_offset_isSome (s : State) (l : LedgerMap) (hs : StableIs s.utxos l)
    (hl : (l.map (·.1)).Nodup) (a : Addr) (A : List Utxo) (R : List OutPoint) (off : Option Utxo) :
    ∃ res, State.addressUtxos s a A R off = some res := by
  unfold State.addressUtxos
  have hany : (((s.utxos.getAddressOutpoints a off).filter (fun o => !(R.contains o))).map
      (fun o => (s.utxos.getUtxo o).map (fun p => Utxo.mk p.2 o p.1.value))).any Option.isNone = false := by
    rw [List.any_eq_false]
    intro x hx
    obtain ⟨o, ho, rfl⟩ := List.mem_map.mp hx
    have ho' := (List.mem_filter.mp ho).1
    have := getAddressOutpoints_offset_subset s.utxos l hs hl a off o ho'
    obtain ⟨u, hu, rfl⟩ := List.mem_map.mp this
    rw [getUtxo_of_mem_lfor s l hs hl a u hu]
    simp
  simp only [hany, Bool.false_eq_true, if_false]
  exact ⟨_, rfl⟩


/-- `addressUtxos` when no block is being ingested and one of the two sides is empty, in a form
    `decide` can evaluate (`multiIter` itself is compiled by well-founded recursion) -/
theorem addressUtxos_stable_only (s : State) (a : Addr) (off : Option Utxo)
    (h : s.utxos.ingesting = none) (res : List Utxo)
    (hres : (((s.utxos.rangeScan a off).filter (fun e => e.addr == a)).map (·.op)).map
      (fun o => (s.utxos.getUtxo o).map (fun p => Utxo.mk p.2 o p.1.value)) = res.map some) :
    s.addressUtxos a [] [] off = some res := by
  unfold State.addressUtxos
  rw [UtxoSet.getAddressOutpoints_notIngesting _ _ _ h]
  have hf : ∀ l : List OutPoint, l.filter (fun o => !(([] : List OutPoint).contains o)) = l := by
    intro l; rw [List.filter_eq_self]; intro o _; simp
  have h1 : (res.map some).any Option.isNone = false := by simp [List.any_eq_false]
  simp only [hf, hres, h1, Bool.false_eq_true, if_false, dedup, sortBy, List.foldr_nil, List.filter_nil,
    multiIter_nil_right, List.filterMap_map, Function.comp_def, id, List.filterMap_some]


theorem addressUtxos_unstable_only (s : State) (a : Addr) (A : List Utxo) (off : Option Utxo)
    (h : s.utxos.ingesting = none) (hi : s.utxos.index = []) :
    s.addressUtxos a A [] off = some ((sortBy Utxo.lt (dedup A)).filter
      (fun u => match off with | some off => off.le u | none => true)) := by
  unfold State.addressUtxos
  rw [UtxoSet.getAddressOutpoints_notIngesting _ _ _ h]
  have h0 : s.utxos.rangeScan a off = [] := by simp [UtxoSet.rangeScan, hi, sortBy]
  simp only [h0, List.filter_nil, List.map_nil, List.any_nil, Bool.false_eq_true, if_false,
    List.filterMap_nil, multiIter_nil_left]
  congr 2
  rw [List.filter_eq_self]; intro u _; simp


end Btc
