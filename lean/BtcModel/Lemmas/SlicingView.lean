import BtcModel.Lemmas.Slicing
import BtcModel.Lemmas.QueryInv

/-!
  The view of a paused ingestion: an exact characterisation of `Delta` at every position reached by
  the sliced loop (`DeltaExact`), the relation between the raw index and the index before the
  block (`IndexRel`), and from them the three reverted readers `getUtxo`, `getBalance`,
  `getAddressOutpoints` of a paused stable set.
-/
namespace Btc
open Spec
namespace UtxoSet

/-! ### Exact content of the `Delta` -/

/-- `l0` = ledger before the block, `l` = ledger now (raw maps), `d` = the delta. -/
structure DeltaExact (l0 l : LedgerMap) (d : Delta) : Prop where
  addedNodup : (d.added.map (·.1)).Nodup
  removedNodup : (d.removed.map (·.1)).Nodup
  /-- an entry present before and now is unchanged -/
  persist : ∀ o e e0, AList.find? l o = some e → AList.find? l0 o = some e0 → e0 = e
  /-- `added` = new entries (not there before, there now) that carry an address -/
  added : ∀ o a, AList.find? d.added o = some a ↔
    (AList.find? l0 o = none ∧ ∃ t hh, AList.find? l o = some (t, hh) ∧ t.addr = some a)
  /-- `removed` = entries there before, gone now, that carry an address -/
  removed : ∀ o a, AList.find? d.removed o = some a ↔
    (AList.find? l o = none ∧ ∃ t hh, AList.find? l0 o = some (t, hh) ∧ t.addr = some a)
  utxosRemoved : ∀ o, AList.contains d.removed o = true → AList.find? d.utxos o = AList.find? l0 o
  utxosAdded : ∀ o, AList.contains d.added o = true → AList.find? d.utxos o = AList.find? l o

theorem DeltaExact.start (l0 : LedgerMap) : DeltaExact l0 l0 {} := by
  refine ⟨by simp, by simp, ?_, ?_, ?_, ?_, ?_⟩
  · intro o e e0 h1 h2; rw [h1] at h2; cases h2; rfl
  · intro o a
    constructor
    · intro h; simp at h
    · rintro ⟨h1, t, hh, h2, _⟩; rw [h1] at h2; cases h2
  · intro o a
    constructor
    · intro h; simp at h
    · rintro ⟨h1, t, hh, h2, _⟩; rw [h1] at h2; cases h2
  · intro o h; simp [AList.contains] at h
  · intro o h; simp [AList.contains] at h

theorem contains_iff_find? {κ ν : Type} [BEq κ] (m : List (κ × ν)) (k : κ) :
    AList.contains m k = true ↔ ∃ v, AList.find? m k = some v := by
  unfold AList.contains
  cases AList.find? m k <;> simp

theorem deltaRemove_exact (l0 l : LedgerMap) (d d' : Delta) (o : OutPoint) (t : TxOut) (hh : Nat)
    (hE : DeltaExact l0 l d) (hf : AList.find? l o = some (t, hh))
    (hd : deltaRemove d o t hh = some d') : DeltaExact l0 (AList.erase l o) d' := by
  have hne : ∀ k, o ≠ k → AList.find? (AList.erase l o) k = AList.find? l k :=
    fun k h => AList.find?_erase_ne l o k h
  have hself : AList.find? (AList.erase l o) o = none := AList.find?_erase_self l o
  have hpersist : ∀ k e e0, AList.find? (AList.erase l o) k = some e → AList.find? l0 k = some e0 →
      e0 = e := by
    intro k e e0 h1 h2
    by_cases hk : o = k
    · subst hk; rw [hself] at h1; cases h1
    · rw [hne k hk] at h1; exact hE.persist k e e0 h1 h2
  cases ha : t.addr with
  | none =>
    simp only [deltaRemove, ha, Option.some.injEq] at hd
    subst hd
    refine ⟨hE.addedNodup, hE.removedNodup, hpersist, ?_, ?_, hE.utxosRemoved, ?_⟩
    · intro k a
      by_cases hk : o = k
      · subst hk
        rw [hE.added, hself, hf]
        constructor
        · rintro ⟨_, t', hh', h1, h2⟩
          simp only [Option.some.injEq, Prod.mk.injEq] at h1
          rw [← h1.1, ha] at h2; cases h2
        · rintro ⟨_, t', hh', h1, _⟩; cases h1
      · rw [hE.added, hne k hk]
    · intro k a
      by_cases hk : o = k
      · subst hk
        rw [hE.removed, hself, hf]
        constructor
        · rintro ⟨h1, _⟩; cases h1
        · rintro ⟨_, t', hh', h1, h2⟩
          have := hE.persist o (t, hh) (t', hh') hf h1
          simp only [Prod.mk.injEq] at this
          rw [this.1, ha] at h2; cases h2
      · rw [hE.removed, hne k hk]
    · intro k hk
      have hko : o ≠ k := by
        rintro rfl
        obtain ⟨a, hka⟩ := (contains_iff_find? _ _).1 hk
        obtain ⟨_, t', hh', h1, h2⟩ := (hE.added o a).1 hka
        rw [hf] at h1
        simp only [Option.some.injEq, Prod.mk.injEq] at h1
        rw [← h1.1, ha] at h2; cases h2
      rw [hne k hko]; exact hE.utxosAdded k hk
  | some a0 =>
    simp only [deltaRemove, ha, Delta.remove] at hd
    by_cases hadd : AList.contains d.added o = true
    · simp only [hadd, if_true, Option.some.injEq] at hd
      subst hd
      obtain ⟨a', ha'⟩ := (contains_iff_find? _ _).1 hadd
      have hl0 : AList.find? l0 o = none := ((hE.added o a').1 ha').1
      refine ⟨AList.nodup_keys_erase _ _ hE.addedNodup, hE.removedNodup, hpersist, ?_, ?_, ?_, ?_⟩
      · intro k a
        show AList.find? (AList.erase d.added o) k = some a ↔ _
        by_cases hk : o = k
        · subst hk
          rw [AList.find?_erase_self, hself]
          constructor
          · intro h; cases h
          · rintro ⟨_, t', hh', h1, _⟩; cases h1
        · rw [AList.find?_erase_ne _ _ _ hk, hE.added, hne k hk]
      · intro k a
        show AList.find? d.removed k = some a ↔ _
        by_cases hk : o = k
        · subst hk
          rw [hE.removed, hself, hf, hl0]
          constructor
          · rintro ⟨h1, _⟩; cases h1
          · rintro ⟨_, t', hh', h1, _⟩; cases h1
        · rw [hE.removed, hne k hk]
      · intro k hk
        show AList.find? (AList.erase d.utxos o) k = _
        have hko : o ≠ k := by
          rintro rfl
          obtain ⟨a, hka⟩ := (contains_iff_find? _ _).1 hk
          have := ((hE.removed o a).1 hka).1
          rw [hf] at this; cases this
        rw [AList.find?_erase_ne _ _ _ hko]; exact hE.utxosRemoved k hk
      · intro k hk
        show AList.find? (AList.erase d.utxos o) k = _
        have hk' : AList.contains (AList.erase d.added o) k = true := hk
        rw [AList.contains_erase] at hk'
        simp only [Bool.and_eq_true, Bool.not_eq_true', beq_eq_false_iff_ne, ne_eq] at hk'
        rw [AList.find?_erase_ne _ _ _ hk'.1, hne k hk'.1]
        exact hE.utxosAdded k hk'.2
    · simp only [hadd, Bool.false_eq_true, if_false] at hd
      by_cases hut : AList.contains d.utxos o = true
      · simp [hut] at hd
      · simp only [hut, Bool.false_eq_true, if_false, Option.some.injEq] at hd
        subst hd
        have hnoadd : ∀ a, AList.find? d.added o ≠ some a := by
          intro a h
          exact hadd ((contains_iff_find? _ _).2 ⟨a, h⟩)
        have hl0 : AList.find? l0 o = some (t, hh) := by
          cases h0 : AList.find? l0 o with
          | none => exact absurd ((hE.added o a0).2 ⟨h0, t, hh, hf, ha⟩) (hnoadd a0)
          | some e0 => rw [hE.persist o (t, hh) e0 hf h0]
        refine ⟨hE.addedNodup, AList.nodup_keys_insert _ _ _ hE.removedNodup, hpersist, ?_, ?_, ?_, ?_⟩
        · intro k a
          show AList.find? d.added k = some a ↔ _
          by_cases hk : o = k
          · subst hk
            rw [hself]
            constructor
            · intro h; exact absurd h (hnoadd a)
            · rintro ⟨_, t', hh', h1, _⟩; cases h1
          · rw [hE.added, hne k hk]
        · intro k a
          show AList.find? (AList.insert d.removed o a0) k = some a ↔ _
          by_cases hk : o = k
          · subst hk
            rw [AList.find?_insert_self, hself, hl0]
            constructor
            · intro h
              simp only [Option.some.injEq] at h
              exact ⟨rfl, t, hh, rfl, by rw [ha, h]⟩
            · rintro ⟨_, t', hh', h1, h2⟩
              simp only [Option.some.injEq, Prod.mk.injEq] at h1
              rw [← h1.1, ha] at h2
              exact h2
          · rw [AList.find?_insert_ne _ _ _ _ hk, hE.removed, hne k hk]
        · intro k hk
          show AList.find? ((o, (t, hh)) :: d.utxos) k = _
          have hk' : AList.contains (AList.insert d.removed o a0) k = true := hk
          rw [AList.contains_insert] at hk'
          rw [AList.find?_cons]
          by_cases hko : o = k
          · subst hko; simp [hl0]
          · have : (o == k) = false := by simpa using hko
            simp only [this, Bool.false_or] at hk'
            simp only [this, Bool.false_eq_true, if_false]
            exact hE.utxosRemoved k hk'
        · intro k hk
          show AList.find? ((o, (t, hh)) :: d.utxos) k = _
          have hko : o ≠ k := by
            rintro rfl
            exact hadd hk
          have : (o == k) = false := by simpa using hko
          rw [AList.find?_cons, hne k hko]
          simp only [this, Bool.false_eq_true, if_false]
          exact hE.utxosAdded k hk


theorem deltaInsert_exact (l0 l : LedgerMap) (d d' : Delta) (o : OutPoint) (t : TxOut) (h : Nat)
    (hE : DeltaExact l0 l d) (hl : AList.find? l o = none) (hl0 : AList.find? l0 o = none)
    (hd : deltaInsert d o t h = some d') :
    DeltaExact l0 (if t.opret then l else l ++ [(o, (t, h))]) d' := by
  by_cases hop : t.opret = true
  · simp only [deltaInsert, hop, if_true, Option.some.injEq] at hd
    subst hd
    simpa [hop] using hE
  · have hop' : t.opret = false := by simpa using hop
    simp only [deltaInsert, hop', Bool.false_eq_true, if_false] at hd
    simp only [hop', Bool.false_eq_true, if_false]
    have hnew : AList.find? (l ++ [(o, (t, h))]) o = some (t, h) := by
      rw [AList.find?_append, hl, AList.find?_singleton]; simp
    have hne : ∀ k, o ≠ k → AList.find? (l ++ [(o, (t, h))]) k = AList.find? l k := by
      intro k hk
      rw [AList.find?_append, AList.find?_singleton]
      have : (o == k) = false := by simpa using hk
      simp [this]
    have hpersist : ∀ k e e0, AList.find? (l ++ [(o, (t, h))]) k = some e →
        AList.find? l0 k = some e0 → e0 = e := by
      intro k e e0 h1 h2
      by_cases hk : o = k
      · subst hk; rw [hl0] at h2; cases h2
      · rw [hne k hk] at h1; exact hE.persist k e e0 h1 h2
    have hnoadd : ∀ a, AList.find? d.added o ≠ some a := by
      intro a ha
      obtain ⟨_, t', hh', h1, _⟩ := (hE.added o a).1 ha
      rw [hl] at h1; cases h1
    have hnorem : ∀ a, AList.find? d.removed o ≠ some a := by
      intro a ha
      obtain ⟨_, t', hh', h1, _⟩ := (hE.removed o a).1 ha
      rw [hl0] at h1; cases h1
    have hremoved : ∀ k a, AList.find? d.removed k = some a ↔
        (AList.find? (l ++ [(o, (t, h))]) k = none ∧
          ∃ t' hh', AList.find? l0 k = some (t', hh') ∧ t'.addr = some a) := by
      intro k a
      by_cases hk : o = k
      · subst hk
        rw [hnew]
        constructor
        · intro h1; exact absurd h1 (hnorem a)
        · rintro ⟨h1, _⟩; cases h1
      · rw [hE.removed, hne k hk]
    have hutR : ∀ (u2 : List (OutPoint × (TxOut × Nat))),
        (∀ k, o ≠ k → AList.find? u2 k = AList.find? d.utxos k) →
        ∀ k, AList.contains d.removed k = true → AList.find? u2 k = AList.find? l0 k := by
      intro u2 hu2 k hk
      have hko : o ≠ k := by
        rintro rfl
        obtain ⟨a, hka⟩ := (contains_iff_find? _ _).1 hk
        exact hnorem a hka
      rw [hu2 k hko]; exact hE.utxosRemoved k hk
    cases ha : t.addr with
    | none =>
      simp only [ha, Option.some.injEq] at hd
      subst hd
      refine ⟨hE.addedNodup, hE.removedNodup, hpersist, ?_, hremoved,
        hutR d.utxos (fun _ _ => rfl), ?_⟩
      · intro k a
        by_cases hk : o = k
        · subst hk
          rw [hnew]
          constructor
          · intro h1; exact absurd h1 (hnoadd a)
          · rintro ⟨_, t', hh', h1, h2⟩
            simp only [Option.some.injEq, Prod.mk.injEq] at h1
            rw [← h1.1, ha] at h2; cases h2
        · rw [hE.added, hne k hk]
      · intro k hk
        have hko : o ≠ k := by
          rintro rfl
          obtain ⟨a, hka⟩ := (contains_iff_find? _ _).1 hk
          exact hnoadd a hka
        rw [hne k hko]; exact hE.utxosAdded k hk
    | some a0 =>
      simp only [ha, Delta.insert] at hd
      by_cases hut : AList.contains d.utxos o = true
      · simp [hut] at hd
      · simp only [hut, Bool.false_eq_true, if_false, Option.some.injEq] at hd
        subst hd
        have hcons : ∀ k, o ≠ k → AList.find? ((o, (t, h)) :: d.utxos) k = AList.find? d.utxos k := by
          intro k hk
          have : (o == k) = false := by simpa using hk
          rw [AList.find?_cons]; simp [this]
        refine ⟨AList.nodup_keys_insert _ _ _ hE.addedNodup, hE.removedNodup, hpersist, ?_, hremoved,
          hutR _ hcons, ?_⟩
        · intro k a
          show AList.find? (AList.insert d.added o a0) k = some a ↔ _
          by_cases hk : o = k
          · subst hk
            rw [AList.find?_insert_self, hnew]
            constructor
            · intro h1
              simp only [Option.some.injEq] at h1
              exact ⟨hl0, t, h, rfl, by rw [ha, h1]⟩
            · rintro ⟨_, t', hh', h1, h2⟩
              simp only [Option.some.injEq, Prod.mk.injEq] at h1
              rw [← h1.1, ha] at h2; exact h2
          · rw [AList.find?_insert_ne _ _ _ _ hk, hE.added, hne k hk]
        · intro k hk
          show AList.find? ((o, (t, h)) :: d.utxos) k = _
          have hk' : AList.contains (AList.insert d.added o a0) k = true := hk
          rw [AList.contains_insert] at hk'
          by_cases hko : o = k
          · subst hko; rw [hnew, AList.find?_cons]; simp
          · have : (o == k) = false := by simpa using hko
            simp only [this, Bool.false_or] at hk'
            rw [hcons k hko, hne k hko]
            exact hE.utxosAdded k hk'


/-! ### The raw index versus the index before the block -/

/-- the raw index agrees with the index before the block outside the touched outpoints `T`,
    order included -/
def IndexRel (idx0 idx : List IdxEntry) (T : List OutPoint) : Prop :=
  ∀ K : IdxEntry → Bool, (∀ e, K e = true → e.op ∉ T) → idx.filter K = idx0.filter K

theorem IndexRel.filter_step {idx0 idx : List IdxEntry} {T : List OutPoint} (h : IndexRel idx0 idx T)
    (K0 : IdxEntry → Bool) (o : OutPoint) (hK0 : ∀ e, K0 e = false → e.op = o) :
    IndexRel idx0 (idx.filter K0) (o :: T) := by
  intro K hK
  rw [List.filter_filter]
  have : idx.filter (fun a => K a && K0 a) = idx.filter K := by
    apply List.filter_congr
    intro e _
    cases hk : K e with
    | false => rfl
    | true =>
      cases hk0 : K0 e with
      | true => rfl
      | false => exact absurd (List.mem_cons.2 (Or.inl (hK0 e hk0))) (hK e hk)
  rw [this]
  exact h K (fun e he hm => hK e he (List.mem_cons_of_mem _ hm))

theorem IndexRel.cons_step {idx0 idx : List IdxEntry} {T : List OutPoint} (h : IndexRel idx0 idx T)
    (e0 : IdxEntry) : IndexRel idx0 (e0 :: idx) (e0.op :: T) := by
  intro K hK
  have : K e0 = false := by
    cases hk : K e0 with
    | false => rfl
    | true => exact absurd List.mem_cons_self (hK e0 hk)
  rw [List.filter_cons, this]
  simp only [Bool.false_eq_true, if_false]
  exact h K (fun e he hm => hK e he (List.mem_cons_of_mem _ hm))

theorem IndexRel.mono {idx0 idx : List IdxEntry} {T : List OutPoint} (h : IndexRel idx0 idx T)
    (o : OutPoint) : IndexRel idx0 idx (o :: T) :=
  fun K hK => h K (fun e he hm => hK e he (List.mem_cons_of_mem _ hm))

theorem removeInput_index' (u : UtxoSet) (d : Delta) (o : OutPoint) :
    match removeInput u d o with
    | .ok u' _ => ∃ K0 : IdxEntry → Bool, u'.index = u.index.filter K0 ∧ ∀ e, K0 e = false → e.op = o
    | .trap _ => True := by
  have htriv : ∃ K0 : IdxEntry → Bool, u.index = u.index.filter K0 ∧ ∀ e, K0 e = false → e.op = o :=
    ⟨fun _ => true, (List.filter_eq_self.2 (fun _ _ => rfl)).symm, fun e h => by simp at h⟩
  cases hf : AList.find? u.utxos o with
  | none => simp [removeInput, hf]
  | some v =>
    obtain ⟨t, ht⟩ := v
    cases ha : t.addr with
    | none =>
      simp only [removeInput, hf, ha]
      exact htriv
    | some a =>
      simp only [removeInput, hf, ha]
      by_cases hc : (!u.index.contains (⟨a, ht, o⟩ : IdxEntry)) = true
      · simp only [hc, if_true]
      · simp only [hc]
        generalize (if (t.value != 0) = true then
            match AList.find? u.balances a with
            | none => none
            | some bal =>
              if bal < t.value then none
              else if bal - t.value = 0 then some (AList.erase u.balances a)
              else some (AList.insert u.balances a (bal - t.value))
          else some u.balances) = B
        cases B with
        | none => trivial
        | some bal =>
          simp only
          cases hd : d.remove a o t ht with
          | none => trivial
          | some d' =>
            refine ⟨fun x => !(x == (⟨a, ht, o⟩ : IdxEntry)), rfl, ?_⟩
            intro e he
            simp only [Bool.not_eq_false', beq_iff_eq] at he
            rw [he]

theorem removeInput_index (u u' : UtxoSet) (d d' : Delta) (o : OutPoint)
    (h : removeInput u d o = .ok u' d') :
    ∃ K0 : IdxEntry → Bool, u'.index = u.index.filter K0 ∧ ∀ e, K0 e = false → e.op = o := by
  have := removeInput_index' u d o
  rw [h] at this
  exact this

theorem insertOutput_index' (u : UtxoSet) (d : Delta) (txid vout : Nat) (t : TxOut) :
    match insertOutput u d txid vout t with
    | .ok u' _ => u'.index = u.index ∨ ∃ e : IdxEntry, e.op = ⟨txid, vout⟩ ∧ u'.index = e :: u.index
    | .trap _ => True := by
  cases hop : t.opret with
  | true => simp [insertOutput, hop]
  | false =>
    cases ha : t.addr with
    | none =>
      simp only [insertOutput, hop, ha, Bool.false_eq_true, if_false]
      cases hc : AList.contains u.utxos ⟨txid, vout⟩ with
      | true => simp
      | false => simp
    | some a =>
      simp only [insertOutput, hop, ha, Bool.false_eq_true, if_false]
      cases hd : d.insert a ⟨txid, vout⟩ t u.nextHeight with
      | none => simp
      | some d1 =>
        simp only
        cases hc : AList.contains u.utxos ⟨txid, vout⟩ with
        | true => simp
        | false =>
          simp only [Bool.false_eq_true, if_false]
          by_cases hci : u.index.contains (⟨a, u.nextHeight, ⟨txid, vout⟩⟩ : IdxEntry) = true
          · left; simp only [hci, if_true]
          · right
            exact ⟨⟨a, u.nextHeight, ⟨txid, vout⟩⟩, rfl, by simp only [hci, Bool.false_eq_true, if_false]⟩

theorem insertOutput_index (u u' : UtxoSet) (d d' : Delta) (txid vout : Nat) (t : TxOut)
    (h : insertOutput u d txid vout t = .ok u' d') :
    u'.index = u.index ∨ ∃ e : IdxEntry, e.op = ⟨txid, vout⟩ ∧ u'.index = e :: u.index := by
  have := insertOutput_index' u d txid vout t
  rw [h] at this
  exact this

/-! ### The invariant of the sliced loop -/

/-- what holds at every position the loop reaches when started from `u0` (holding `l0`) on `blk` -/
structure ViewInv (u0 : UtxoSet) (l0 : LedgerMap) (blk : Block) (u : UtxoSet) (ing : Ingesting) : Prop where
  block : ing.block = blk
  height : u.nextHeight = u0.nextHeight
  ex : ∃ (l : LedgerMap) (T : List OutPoint), StableIs u l ∧ (l.map (·.1)).Nodup ∧
    DeltaExact l0 l ing.delta ∧ IndexRel u0.index u.index T ∧
    (∀ o ∈ T, AList.find? l o = none ∨ AList.find? l0 o = none) ∧
    (∀ o, o ∉ T → AList.find? l o = AList.find? l0 o) ∧
    (∀ o ∈ T, ∃ tx ∈ blk.txs, o ∈ tx.ins ∨ o.txid = tx.txid)

theorem ViewInv.start (u0 : UtxoSet) (l0 : LedgerMap) (blk : Block) (hS : StableIs u0 l0)
    (hnd : (l0.map (·.1)).Nodup) : ViewInv u0 l0 blk u0 ⟨blk, 0, 0, 0, {}⟩ :=
  ⟨rfl, rfl, l0, [], hS, hnd, DeltaExact.start l0, fun _ _ => rfl, by simp, fun _ _ => rfl, by simp⟩

/-- a successful budgeted step is the removal of one input or the insertion of one output of a
    transaction of the block -/
theorem pureStep_ok_cases (u u' : UtxoSet) (ing ing1 ing' : Ingesting)
    (h : pureStep u ing = .work ing1 (.ok (u', ing'))) :
    ing1.delta = ing.delta ∧ ing1.block = ing.block ∧ ing'.block = ing.block ∧
    ((∃ tx o, tx ∈ ing.block.txs ∧ o ∈ tx.ins ∧ removeInput u ing.delta o = .ok u' ing'.delta) ∨
     (∃ tx i t, tx ∈ ing.block.txs ∧ insertOutput u ing.delta tx.txid i t = .ok u' ing'.delta)) := by
  cases htx : ing.block.txs[ing.txIdx]? with
  | none => simp [pureStep, htx] at h
  | some tx =>
    have hmem : tx ∈ ing.block.txs := List.mem_of_getElem? htx
    simp only [pureStep, htx] at h
    split at h
    · simp only [PStep.work.injEq] at h
      obtain ⟨h1, h2⟩ := h
      subst h1
      cases ho : tx.ins[ing.inIdx]? with
      | none => simp [ho] at h2
      | some o =>
        simp only [ho] at h2
        cases hr : removeInput u ing.delta o with
        | trap m => simp [hr] at h2
        | ok u1 d1 =>
          simp only [hr, Except.ok.injEq, Prod.mk.injEq] at h2
          obtain ⟨rfl, rfl⟩ := h2
          exact ⟨rfl, rfl, rfl, Or.inl ⟨tx, o, hmem, List.mem_of_getElem? ho, hr⟩⟩
    · split at h
      · simp only [PStep.work.injEq] at h
        obtain ⟨h1, h2⟩ := h
        subst h1
        cases ho : tx.outs[ing.outIdx]? with
        | none => simp [ho] at h2
        | some t =>
          simp only [ho] at h2
          cases hr : insertOutput u ing.delta tx.txid ing.outIdx t with
          | trap m => simp [hr] at h2
          | ok u1 d1 =>
            simp only [hr, Except.ok.injEq, Prod.mk.injEq] at h2
            obtain ⟨rfl, rfl⟩ := h2
            exact ⟨rfl, rfl, rfl, Or.inr ⟨tx, ing.outIdx, t, hmem, hr⟩⟩
      · cases h

theorem pureStep_work_delta (u : UtxoSet) (ing ing1 : Ingesting) (r : Except String (UtxoSet × Ingesting))
    (h : pureStep u ing = .work ing1 r) : ing1.delta = ing.delta ∧ ing1.block = ing.block := by
  cases htx : ing.block.txs[ing.txIdx]? with
  | none => simp [pureStep, htx] at h
  | some tx =>
    simp only [pureStep, htx] at h
    split at h
    · simp only [PStep.work.injEq] at h; rw [← h.1]; exact ⟨rfl, rfl⟩
    · split at h
      · simp only [PStep.work.injEq] at h; rw [← h.1]; exact ⟨rfl, rfl⟩
      · cases h

theorem pureStep_free_delta (u : UtxoSet) (ing ing' : Ingesting) (h : pureStep u ing = .free ing') :
    ing'.delta = ing.delta ∧ ing'.block = ing.block := by
  cases htx : ing.block.txs[ing.txIdx]? with
  | none => simp [pureStep, htx] at h
  | some tx =>
    simp only [pureStep, htx] at h
    split at h
    · cases h
    · split at h
      · cases h
      · simp only [PStep.free.injEq] at h; rw [← h]; exact ⟨rfl, rfl⟩


theorem ViewInv.of_free {u0 : UtxoSet} {l0 : LedgerMap} {blk : Block} {u : UtxoSet} {ing ing' : Ingesting}
    (hV : ViewInv u0 l0 blk u ing) (h : pureStep u ing = .free ing') : ViewInv u0 l0 blk u ing' := by
  obtain ⟨hd, hb⟩ := pureStep_free_delta u ing ing' h
  obtain ⟨h1, h2, l, T, h3⟩ := hV
  exact ⟨hb.trans h1, h2, l, T, by rw [hd]; exact h3⟩

theorem ViewInv.of_pause {u0 : UtxoSet} {l0 : LedgerMap} {blk : Block} {u : UtxoSet} {ing ing1 : Ingesting}
    {r : Except String (UtxoSet × Ingesting)}
    (hV : ViewInv u0 l0 blk u ing) (h : pureStep u ing = .work ing1 r) : ViewInv u0 l0 blk u ing1 := by
  obtain ⟨hd, hb⟩ := pureStep_work_delta u ing ing1 r h
  obtain ⟨h1, h2, l, T, h3⟩ := hV
  exact ⟨hb.trans h1, h2, l, T, by rw [hd]; exact h3⟩

theorem ViewInv.of_ok {u0 : UtxoSet} {l0 : LedgerMap} {blk : Block} {u u' : UtxoSet}
    {ing ing1 ing' : Ingesting}
    (hfresh : ∀ tx ∈ blk.txs, ∀ e ∈ l0, e.1.txid ≠ tx.txid)
    (hV : ViewInv u0 l0 blk u ing) (h : pureStep u ing = .work ing1 (.ok (u', ing'))) :
    ViewInv u0 l0 blk u' ing' := by
  obtain ⟨_, _, hb', hcases⟩ := pureStep_ok_cases u u' ing ing1 ing' h
  obtain ⟨hblk, hheight, l, T, hS, hnd, hE, hI, hT, hU, hTr⟩ := hV
  rcases hcases with ⟨txi, o, htxi, hoi, hr⟩ | ⟨tx, i, t, htx, hr⟩
  · -- an input was removed
    rw [hblk] at htxi
    obtain ⟨t, hh, hfu, hd⟩ := removeInput_inv u u' ing.delta ing'.delta o hr
    have hf : AList.find? l o = some (t, hh) := by rw [← hS.utxosEq]; exact hfu
    obtain ⟨u'', hr'', hS', hh'⟩ := removeInput_ok u l ing.delta ing'.delta o t hh hS hnd hf hd
    rw [hr] at hr''
    simp only [StepResult.ok.injEq, and_true] at hr''
    subst hr''
    obtain ⟨K0, hidx, hK0⟩ := removeInput_index u u' ing.delta ing'.delta o hr
    refine ⟨hb'.trans hblk, hh'.trans hheight, AList.erase l o, o :: T, hS',
      AList.nodup_keys_erase _ _ hnd, deltaRemove_exact l0 l _ _ o t hh hE hf hd, ?_, ?_, ?_, ?_⟩
    · rw [hidx]; exact hI.filter_step K0 o hK0
    · intro k hk
      rcases List.mem_cons.1 hk with rfl | hk'
      · exact Or.inl (AList.find?_erase_self l k)
      · rcases hT k hk' with h1 | h1
        · left; rw [AList.find?_erase, h1]; simp
        · exact Or.inr h1
    · intro k hk
      simp only [List.mem_cons, not_or] at hk
      rw [AList.find?_erase_ne l o k (fun e => hk.1 e.symm)]
      exact hU k hk.2
    · intro k hk
      rcases List.mem_cons.1 hk with rfl | hk'
      · exact ⟨txi, htxi, Or.inl hoi⟩
      · exact hTr k hk'
  · -- an output was inserted
    rw [hblk] at htx
    obtain ⟨hd, hrun⟩ := insertOutput_inv u u' ing.delta ing'.delta tx.txid i t hr
    by_cases hop : t.opret = true
    · have : insertOutput u ing.delta tx.txid i t = .ok u ing.delta := by simp [insertOutput, hop]
      rw [hr] at this
      simp only [StepResult.ok.injEq] at this
      obtain ⟨rfl, hdd⟩ := this
      exact ⟨hb'.trans hblk, hheight, l, T, hS, hnd, by rw [hdd]; exact hE, hI, hT, hU, hTr⟩
    · have hop' : t.opret = false := by simpa using hop
      have hfl : AList.find? l ⟨tx.txid, i⟩ = none := by rw [← hS.utxosEq]; exact hrun hop'
      have hfl0 : AList.find? l0 ⟨tx.txid, i⟩ = none := by
        cases h0 : AList.find? l0 ⟨tx.txid, i⟩ with
        | none => rfl
        | some v => exact absurd rfl (hfresh tx htx _ (AList.mem_of_find? l0 _ v h0))
      obtain ⟨u'', hr'', hS', hh'⟩ := insertOutput_ok u l ing.delta ing'.delta tx.txid i t hS hfl hd
      rw [hr] at hr''
      simp only [StepResult.ok.injEq, and_true] at hr''
      subst hr''
      have hE' := deltaInsert_exact l0 l _ _ ⟨tx.txid, i⟩ t u.nextHeight hE hfl hfl0 hd
      simp only [hop', Bool.false_eq_true, if_false] at hS' hE'
      refine ⟨hb'.trans hblk, hh'.trans hheight, _, (⟨tx.txid, i⟩ : OutPoint) :: T, hS',
        AList.nodup_keys_append_fresh _ _ _ hnd hfl, hE', ?_, ?_, ?_, ?_⟩
      · rcases insertOutput_index u u' ing.delta ing'.delta tx.txid i t hr with hi | ⟨e, he, hi⟩
        · rw [hi]; exact hI.mono _
        · rw [hi, ← he]; exact hI.cons_step e
      · intro k hk
        by_cases hko : (⟨tx.txid, i⟩ : OutPoint) = k
        · subst hko; exact Or.inr hfl0
        · rcases List.mem_cons.1 hk with rfl | hk'
          · exact absurd rfl hko
          · rcases hT k hk' with h1 | h1
            · left
              rw [AList.find?_append, h1, AList.find?_singleton]
              have : ((⟨tx.txid, i⟩ : OutPoint) == k) = false := by simpa using hko
              simp [this]
            · exact Or.inr h1
      · intro k hk
        simp only [List.mem_cons, not_or] at hk
        rw [AList.find?_append, AList.find?_singleton]
        have : ((⟨tx.txid, i⟩ : OutPoint) == k) = false := by
          simpa using (fun e => hk.1 e.symm)
        simp only [this, Bool.false_eq_true, if_false, Option.or_none]
        exact hU k hk.2
      · intro k hk
        rcases List.mem_cons.1 hk with rfl | hk'
        · exact ⟨tx, htx, Or.inr rfl⟩
        · exact hTr k hk'

/-- an invariant of the positions that is kept by every kind of iteration holds at the pause -/
theorem run_paused_inv (J : UtxoSet → Ingesting → Prop)
    (hfree : ∀ u ing ing', pureStep u ing = .free ing' → J u ing → J u ing')
    (hpause : ∀ u ing ing1 r, pureStep u ing = .work ing1 r → J u ing → J u ing1)
    (hok : ∀ u ing ing1 u' ing', pureStep u ing = .work ing1 (.ok (u', ing')) → J u ing → J u' ing') :
    ∀ (n : Nat) (u : UtxoSet) (ing : Ingesting) (b : Nat) (u1 : UtxoSet), remIter ing ≤ n → J u ing →
      run u ing b = .paused u1 → ∃ u' ing1, u1 = { u' with ingesting := some ing1 } ∧ J u' ing1
  | 0, _, ing, _, _, h, _, _ => by unfold remIter at h; omega
  | n + 1, u, ing, b, u1, hn, hJ, hrun => by
    rw [run_unfold] at hrun
    unfold runNext at hrun
    cases hp : pureStep u ing with
    | fin => rw [hp] at hrun; cases hrun
    | free ing' =>
      rw [hp] at hrun
      obtain ⟨hb, ht, hlt, hw, _⟩ := pureStep_free u ing ing' hp
      exact run_paused_inv J hfree hpause hok n u ing' b u1
        (by unfold remIter at hn ⊢; rw [hb, ht, hw]; omega) (hfree u ing ing' hp hJ) hrun
    | work ing1 r =>
      rw [hp] at hrun
      simp only at hrun
      by_cases hb0 : b = 0
      · simp only [hb0, if_true, RoundResult.paused.injEq] at hrun
        exact ⟨u, ing1, hrun.symm, hpause u ing ing1 r hp hJ⟩
      · simp only [hb0, if_false] at hrun
        cases r with
        | error m => cases hrun
        | ok p =>
          obtain ⟨u', ing'⟩ := p
          obtain ⟨hbk, ht, hw, _⟩ := pureStep_work_ok u u' ing ing1 ing' hp
          exact run_paused_inv J hfree hpause hok n u' ing' (b - 1) u1
            (by unfold remIter at hn ⊢; rw [hbk, ht]; omega) (hok u ing ing1 u' ing' hp hJ) hrun

/-- **The paused state is described by `ViewInv`.** -/
theorem paused_view (u0 : UtxoSet) (l0 : LedgerMap) (blk : Block)
    (hfresh : ∀ tx ∈ blk.txs, ∀ e ∈ l0, e.1.txid ≠ tx.txid)
    (u : UtxoSet) (ing : Ingesting) (b : Nat) (u1 : UtxoSet) (hV : ViewInv u0 l0 blk u ing)
    (hrun : run u ing b = .paused u1) :
    ∃ u' ing1, u1 = { u' with ingesting := some ing1 } ∧ ViewInv u0 l0 blk u' ing1 :=
  run_paused_inv (ViewInv u0 l0 blk)
    (fun _ _ _ h hJ => hJ.of_free h) (fun _ _ _ _ h hJ => hJ.of_pause h)
    (fun _ _ _ _ _ h hJ => hJ.of_ok hfresh h) _ u ing b u1 (Nat.le_refl _) hV hrun

/-- a set paused inside `blk`, started from `u0` holding `l0`: position facts and view facts -/
structure PausedView (u0 : UtxoSet) (l0 : LedgerMap) (blk : Block) (u1 : UtxoSet) : Prop where
  ex : ∃ u' ing, PausedIn u1 blk u' ing ∧ ViewInv u0 l0 blk u' ing

theorem PausedView.first (u0 : UtxoSet) (l0 : LedgerMap) (blk : Block) (hS : StableIs u0 l0)
    (hnd : (l0.map (·.1)).Nodup) (hfresh : ∀ tx ∈ blk.txs, ∀ e ∈ l0, e.1.txid ≠ tx.txid)
    (b : Nat) (u1 : UtxoSet) (h : u0.ingestBlock blk b = .paused u1) : PausedView u0 l0 blk u1 := by
  have hni := hS.notIngesting
  have hr := ingestBlock_round u0 blk b hni
  rw [h] at hr
  obtain ⟨u', ing1, hp, _, _, _⟩ := hr
  rw [ingestBlock_eq_run u0 blk b hni] at h
  obtain ⟨u'', ing2, he, hV⟩ := paused_view u0 l0 blk hfresh u0 _ b u1 (ViewInv.start u0 l0 blk hS hnd) h
  obtain ⟨l, T, hS2, _⟩ := hV.ex
  obtain ⟨rfl, rfl⟩ := paused_decomp_unique u'' u' ing2 ing1 (he.symm.trans hp.eq)
    (hS2.notIngesting.trans hp.clean.symm)
  exact ⟨u'', ing2, hp, hV⟩

theorem PausedView.next {u0 : UtxoSet} {l0 : LedgerMap} {blk : Block} {u1 : UtxoSet}
    (hfresh : ∀ tx ∈ blk.txs, ∀ e ∈ l0, e.1.txid ≠ tx.txid)
    (hP : PausedView u0 l0 blk u1) (b : Nat) (u2 : UtxoSet)
    (h : u1.ingestContinue b = some (.paused u2)) : PausedView u0 l0 blk u2 := by
  obtain ⟨u', ing, hp, hV⟩ := hP.ex
  obtain ⟨h1, h2⟩ := continue_round hp b
  rw [h1] at h
  simp only [Option.some.injEq] at h
  rw [h] at h2
  obtain ⟨v, j, hp2, _, _, _⟩ := h2
  obtain ⟨v2, j2, he, hV2⟩ := paused_view u0 l0 blk hfresh u' ing b u2 hV h
  obtain ⟨l, T, hS2, _⟩ := hV2.ex
  obtain ⟨rfl, rfl⟩ := paused_decomp_unique v2 v j2 j (he.symm.trans hp2.eq)
    (hS2.notIngesting.trans hp2.clean.symm)
  exact ⟨v2, j2, hp2, hV2⟩


/-! ### Reader 1: `getUtxo` of a paused set -/

/-- the components of a paused view, unpacked -/
theorem PausedView.unpack {u0 : UtxoSet} {l0 : LedgerMap} {blk : Block} {u1 : UtxoSet}
    (hP : PausedView u0 l0 blk u1) :
    ∃ (u' : UtxoSet) (ing : Ingesting) (l : LedgerMap) (T : List OutPoint),
      u1 = { u' with ingesting := some ing } ∧ PausedIn u1 blk u' ing ∧
      u'.nextHeight = u0.nextHeight ∧ StableIs u' l ∧
      (l.map (·.1)).Nodup ∧ DeltaExact l0 l ing.delta ∧ IndexRel u0.index u'.index T ∧
      (∀ o ∈ T, AList.find? l o = none ∨ AList.find? l0 o = none) := by
  obtain ⟨u', ing, hp, hV⟩ := hP.ex
  obtain ⟨_, hh, l, T, h1, h2, h3, h4, h5, _, _⟩ := hV
  exact ⟨u', ing, l, T, hp.eq, hp, hh, h1, h2, h3, h4, h5⟩

/-- an output of the pre-ingestion ledger that is gone from the raw set of a paused view was
    spent by a transaction of the block being ingested -/
theorem PausedView.gone_is_input {u0 : UtxoSet} {l0 : LedgerMap} {blk : Block} {u1 : UtxoSet}
    (hfresh : ∀ tx ∈ blk.txs, ∀ e ∈ l0, e.1.txid ≠ tx.txid)
    (hP : PausedView u0 l0 blk u1) (o : OutPoint) (e : TxOut × Nat)
    (h0 : AList.find? l0 o = some e) (h1 : AList.find? u1.utxos o = none) :
    ∃ tx ∈ blk.txs, o ∈ tx.ins := by
  obtain ⟨u', ing, hp, hV⟩ := hP.ex
  obtain ⟨_, _, l, T, hS, _, _, _, _, hU, hTr⟩ := hV
  have hl : AList.find? l o = none := by
    rw [← hS.utxosEq]
    have := hp.eq
    rw [this] at h1
    exact h1
  have hoT : o ∈ T := by
    apply Classical.byContradiction
    intro hn
    have := hU o hn
    rw [hl, h0] at this; cases this
  obtain ⟨tx, htx, h | h⟩ := hTr o hoT
  · exact ⟨tx, htx, h⟩
  · exact absurd h (hfresh tx htx (o, e) (AList.mem_of_find? l0 o e h0))

/-- **`get_utxo` during a paused ingestion** returns the pre-ingestion entry, for every outpoint
    whose output carries an address (the `Delta` only tracks those). -/
theorem getUtxo_paused {u0 : UtxoSet} {l0 : LedgerMap} {blk : Block} {u1 : UtxoSet}
    (hP : PausedView u0 l0 blk u1) (o : OutPoint)
    (h0 : ∀ e, AList.find? l0 o = some e → e.1.addr.isSome = true)
    (h1 : ∀ e, AList.find? u1.utxos o = some e → e.1.addr.isSome = true) :
    u1.getUtxo o = AList.find? l0 o := by
  obtain ⟨u', ing, l, T, he, _, _, hS, _, hE, _, _⟩ := hP.unpack
  have hutx : ∀ k, AList.find? u1.utxos k = AList.find? l k := by
    intro k; rw [he]; exact hS.utxosEq k
  unfold getUtxo
  rw [he]
  simp only
  by_cases hr : AList.contains ing.delta.removed o = true
  · simp only [hr, if_true]
    exact hE.utxosRemoved o hr
  · simp only [hr, Bool.false_eq_true, if_false]
    by_cases ha : AList.contains ing.delta.added o = true
    · simp only [ha, if_true]
      obtain ⟨a, hka⟩ := (contains_iff_find? _ _).1 ha
      exact ((hE.added o a).1 hka).1.symm
    · simp only [ha, Bool.false_eq_true, if_false]
      rw [hS.utxosEq]
      cases hl : AList.find? l o with
      | none =>
        cases hl0 : AList.find? l0 o with
        | none => rfl
        | some e0 =>
          exfalso
          obtain ⟨t, hh⟩ := e0
          have := h0 _ hl0
          cases hadr : t.addr with
          | none => simp [hadr] at this
          | some a =>
            exact hr ((contains_iff_find? _ _).2 ⟨a, (hE.removed o a).2 ⟨hl, t, hh, hl0, hadr⟩⟩)
      | some e =>
        obtain ⟨t, hh⟩ := e
        have := h1 (t, hh) (by rw [hutx]; exact hl)
        cases hl0 : AList.find? l0 o with
        | some e0 => rw [hE.persist o _ e0 hl hl0]
        | none =>
          exfalso
          cases hadr : t.addr with
          | none => simp [hadr] at this
          | some a =>
            exact ha ((contains_iff_find? _ _).2 ⟨a, (hE.added o a).2 ⟨hl0, t, hh, hl, hadr⟩⟩)

/-- the form used by the queries: an output of the pre-ingestion ledger that pays an address -/
theorem getUtxo_paused_of_ledger {u0 : UtxoSet} {l0 : LedgerMap} {blk : Block} {u1 : UtxoSet}
    (hP : PausedView u0 l0 blk u1) (o : OutPoint) (t : TxOut) (hh : Nat) (a : Addr)
    (hl0 : AList.find? l0 o = some (t, hh)) (ha : t.addr = some a) :
    u1.getUtxo o = some (t, hh) := by
  obtain ⟨u', ing, l, T, he, _, _, hS, _, hE, _, _⟩ := hP.unpack
  rw [getUtxo_paused hP o, hl0]
  · intro e h; rw [hl0] at h; cases h; simp [ha]
  · intro e h
    rw [he] at h
    have h' : AList.find? l o = some e := by rw [← hS.utxosEq]; exact h
    rw [← hE.persist o e _ h' hl0]; simp [ha]


/-! ### Reader 2: `getBalance` of a paused set -/

theorem sum_filter_split {α : Type} (v : α → Nat) (p : α → Bool) : ∀ (L : List α),
    (L.map v).sum = ((L.filter p).map v).sum + ((L.filter (fun x => !p x)).map v).sum
  | [] => rfl
  | x :: xs => by
    have ih := sum_filter_split v p xs
    cases hp : p x <;> simp [hp, ih] <;> omega

theorem sumFor_eq_sum (l : LedgerMap) (a : Addr) :
    sumFor l a = ((l.filter (fun e => e.2.1.addr == some a)).map (fun e => e.2.1.value)).sum := by
  unfold sumFor
  rw [← List.sum_eq_foldl]

theorem mem_of_keyed {α β : Type} [BEq α] [LawfulBEq α] (m : List (α × β))
    (hnd : (m.map (·.1)).Nodup) (e : α × β) : e ∈ m ↔ AList.find? m e.1 = some e.2 :=
  ⟨fun h => AList.find?_of_mem m hnd e.1 e.2 h, fun h => AList.mem_of_find? m e.1 e.2 h⟩

theorem mem_keyed_filter_map (m : List (OutPoint × Addr)) (hnd : (m.map (·.1)).Nodup) (a : Addr)
    (o : OutPoint) :
    o ∈ (m.filter (fun p => p.2 == a)).map (·.1) ↔ AList.find? m o = some a := by
  rw [List.mem_map]
  constructor
  · rintro ⟨p, hp, rfl⟩
    rw [List.mem_filter] at hp
    have := (mem_of_keyed m hnd p).1 hp.1
    rw [this]; simpa using hp.2
  · intro h
    exact ⟨(o, a), List.mem_filter.2 ⟨AList.mem_of_find? m o a h, by simp⟩, rfl⟩

theorem mem_removedOf (d : Delta) (hnd : (d.removed.map (·.1)).Nodup) (a : Addr) (o : OutPoint) :
    o ∈ d.removedOf a ↔ AList.find? d.removed o = some a := by
  unfold Delta.removedOf
  rw [(sortBy_perm _ _).mem_iff]
  exact mem_keyed_filter_map d.removed hnd a o

theorem mem_addedOf (d : Delta) (hnd : (d.added.map (·.1)).Nodup) (a : Addr) (o : OutPoint) :
    o ∈ d.addedOf a ↔ AList.find? d.added o = some a := by
  unfold Delta.addedOf
  rw [(sortBy_perm _ _).mem_iff]
  exact mem_keyed_filter_map d.added hnd a o

theorem keyed_filter_map_nodup (m : List (OutPoint × Addr)) (hnd : (m.map (·.1)).Nodup) (a : Addr) :
    ((m.filter (fun p => p.2 == a)).map (·.1)).Nodup :=
  (List.filter_sublist.map _).nodup hnd

theorem removedOf_nodup (d : Delta) (hnd : (d.removed.map (·.1)).Nodup) (a : Addr) :
    (d.removedOf a).Nodup :=
  ((sortBy_perm _ _).nodup_iff).2 (keyed_filter_map_nodup d.removed hnd a)

theorem addedOf_nodup (d : Delta) (hnd : (d.added.map (·.1)).Nodup) (a : Addr) :
    (d.addedOf a).Nodup :=
  ((sortBy_perm _ _).nodup_iff).2 (keyed_filter_map_nodup d.added hnd a)

/-- the value stored for an outpoint in a ledger map (`0` if absent) -/
def valueIn (m : LedgerMap) (o : OutPoint) : Nat :=
  match AList.find? m o with
  | some (t, _) => t.value
  | none => 0

theorem foldl_sumValues (f : Option Nat → OutPoint → Option Nat) (d : Delta) (m : LedgerMap)
    (hf : ∀ s o t hh, AList.find? d.utxos o = some (t, hh) → f (some s) o = some (s + t.value)) :
    ∀ (os : List OutPoint) (s : Nat),
    (∀ o ∈ os, ∃ e, AList.find? d.utxos o = some e ∧ AList.find? m o = some e) →
    os.foldl f (some s) = some (s + (os.map (valueIn m)).sum)
  | [], s, _ => by simp
  | o :: os, s, h => by
    obtain ⟨e, h1, h2⟩ := h o List.mem_cons_self
    obtain ⟨t, hh⟩ := e
    simp only [List.foldl_cons, hf s o t hh h1]
    rw [foldl_sumValues f d m hf os (s + t.value) (fun k hk => h k (List.mem_cons_of_mem _ hk))]
    simp only [List.map_cons, List.sum_cons, valueIn, h2]
    congr 1; omega

theorem sumValues_eq (d : Delta) (m : LedgerMap) (os : List OutPoint)
    (h : ∀ o ∈ os, ∃ e, AList.find? d.utxos o = some e ∧ AList.find? m o = some e) :
    sumValues d os = some ((os.map (valueIn m)).sum) := by
  unfold sumValues
  rw [foldl_sumValues _ d m (by intro s o t hh h; simp only [h]) os 0 h]
  simp

/-- sum of the values, in ledger `m`, of the entries of `X ⊆ m` = sum of `valueIn m` over their keys -/
theorem sum_values_keys (m : LedgerMap) (hnd : (m.map (·.1)).Nodup) (X : LedgerMap)
    (hX : ∀ e ∈ X, e ∈ m) :
    (X.map (fun e => e.2.1.value)).sum = ((X.map (·.1)).map (valueIn m)).sum := by
  rw [List.map_map]
  congr 1
  apply List.map_congr_left
  intro e he
  have := (mem_of_keyed m hnd e).1 (hX e he)
  simp only [Function.comp, valueIn, this]

theorem getBalance_paused {u0 : UtxoSet} {l0 : LedgerMap} {blk : Block} {u1 : UtxoSet}
    (hnd0 : (l0.map (·.1)).Nodup) (hP : PausedView u0 l0 blk u1) (a : Addr) :
    u1.getBalance a = some (sumFor l0 a) := by
  obtain ⟨u', ing, l, T, he, _, _, hS, hnd, hE, _, _⟩ := hP.unpack
  -- the four pieces
  let S0 := l0.filter (fun e => e.2.1.addr == some a)
  let S := l.filter (fun e => e.2.1.addr == some a)
  let inL : OutPoint × (TxOut × Nat) → Bool := fun e => (AList.find? l e.1).isSome
  let inL0 : OutPoint × (TxOut × Nat) → Bool := fun e => (AList.find? l0 e.1).isSome
  have hS0nd : S0.Nodup := (nodup_of_map_nodup (·.1) l0 hnd0).sublist List.filter_sublist
  have hSnd : S.Nodup := (nodup_of_map_nodup (·.1) l hnd).sublist List.filter_sublist
  have hmem0 : ∀ e, e ∈ S0 ↔ AList.find? l0 e.1 = some e.2 ∧ e.2.1.addr = some a := by
    intro e
    simp only [S0, List.mem_filter, beq_iff_eq]
    rw [mem_of_keyed l0 hnd0]
  have hmem : ∀ e, e ∈ S ↔ AList.find? l e.1 = some e.2 ∧ e.2.1.addr = some a := by
    intro e
    simp only [S, List.mem_filter, beq_iff_eq]
    rw [mem_of_keyed l hnd]
  -- kept entries coincide
  have hkept : (S0.filter inL).Perm (S.filter inL0) := by
    rw [List.perm_ext_iff_of_nodup (hS0nd.sublist List.filter_sublist) (hSnd.sublist List.filter_sublist)]
    intro e
    simp only [List.mem_filter, hmem0, hmem, inL, inL0]
    constructor
    · rintro ⟨⟨h1, h2⟩, h3⟩
      obtain ⟨e', he'⟩ := Option.isSome_iff_exists.1 h3
      have := hE.persist e.1 e' e.2 he' h1
      exact ⟨⟨by rw [he', this], h2⟩, by simp [h1]⟩
    · rintro ⟨⟨h1, h2⟩, h3⟩
      obtain ⟨e', he'⟩ := Option.isSome_iff_exists.1 h3
      have := hE.persist e.1 e.2 e' h1 he'
      exact ⟨⟨by rw [he', this], h2⟩, by simp [h1]⟩
  -- gone entries are the delta's removed ones
  have hgone : ((S0.filter (fun e => !inL e)).map (·.1)).Perm (ing.delta.removedOf a) := by
    rw [List.perm_ext_iff_of_nodup ?_ (removedOf_nodup _ hE.removedNodup a)]
    · intro o
      rw [mem_removedOf _ hE.removedNodup, hE.removed, List.mem_map]
      constructor
      · rintro ⟨e, he', rfl⟩
        simp only [List.mem_filter, hmem0, inL, Bool.not_eq_true', Option.isSome_eq_false_iff,
          Option.isNone_iff_eq_none] at he'
        exact ⟨he'.2, e.2.1, e.2.2, he'.1.1, he'.1.2⟩
      · rintro ⟨h1, t, hh, h2, h3⟩
        refine ⟨(o, (t, hh)), ?_, rfl⟩
        simp only [List.mem_filter, hmem0, inL, h1, h2, h3]
        simp
    · exact ((List.filter_sublist.trans List.filter_sublist).map _).nodup hnd0
  have hnew : ((S.filter (fun e => !inL0 e)).map (·.1)).Perm (ing.delta.addedOf a) := by
    rw [List.perm_ext_iff_of_nodup ?_ (addedOf_nodup _ hE.addedNodup a)]
    · intro o
      rw [mem_addedOf _ hE.addedNodup, hE.added, List.mem_map]
      constructor
      · rintro ⟨e, he', rfl⟩
        simp only [List.mem_filter, hmem, inL0, Bool.not_eq_true', Option.isSome_eq_false_iff,
          Option.isNone_iff_eq_none] at he'
        exact ⟨he'.2, e.2.1, e.2.2, he'.1.1, he'.1.2⟩
      · rintro ⟨h1, t, hh, h2, h3⟩
        refine ⟨(o, (t, hh)), ?_, rfl⟩
        simp only [List.mem_filter, hmem, inL0, h1, h2, h3]
        simp
    · exact ((List.filter_sublist.trans List.filter_sublist).map _).nodup hnd
  -- the sums
  have hsum0 : sumFor l0 a = ((S0.filter inL).map (fun e => e.2.1.value)).sum +
      ((ing.delta.removedOf a).map (valueIn l0)).sum := by
    rw [sumFor_eq_sum, sum_filter_split (fun e => e.2.1.value) inL S0]
    congr 1
    rw [sum_values_keys l0 hnd0 _ (fun e he' =>
      (List.mem_filter.1 (List.mem_filter.1 he').1).1)]
    exact (hgone.map _).sum_nat
  have hsum1 : sumFor l a = ((S.filter inL0).map (fun e => e.2.1.value)).sum +
      ((ing.delta.addedOf a).map (valueIn l)).sum := by
    rw [sumFor_eq_sum, sum_filter_split (fun e => e.2.1.value) inL0 S]
    congr 1
    rw [sum_values_keys l hnd _ (fun e he' =>
      (List.mem_filter.1 (List.mem_filter.1 he').1).1)]
    exact (hnew.map _).sum_nat
  have hkeptsum : ((S0.filter inL).map (fun e => e.2.1.value)).sum =
      ((S.filter inL0).map (fun e => e.2.1.value)).sum := (hkept.map _).sum_nat
  -- the two `sumValues`
  have hR : sumValues ing.delta (ing.delta.removedOf a) =
      some (((ing.delta.removedOf a).map (valueIn l0)).sum) := by
    apply sumValues_eq
    · intro o ho
      have hfo := (mem_removedOf _ hE.removedNodup a o).1 ho
      obtain ⟨_, t, hh, h2, _⟩ := (hE.removed o a).1 hfo
      exact ⟨(t, hh), by rw [hE.utxosRemoved o ((contains_iff_find? _ _).2 ⟨a, hfo⟩)]; exact h2, h2⟩
  have hA : sumValues ing.delta (ing.delta.addedOf a) =
      some (((ing.delta.addedOf a).map (valueIn l)).sum) := by
    apply sumValues_eq
    · intro o ho
      have hfo := (mem_addedOf _ hE.addedNodup a o).1 ho
      obtain ⟨_, t, hh, h2, _⟩ := (hE.added o a).1 hfo
      exact ⟨(t, hh), by rw [hE.utxosAdded o ((contains_iff_find? _ _).2 ⟨a, hfo⟩)]; exact h2, h2⟩
  have hbal : (AList.find? u1.balances a).getD 0 = sumFor l a := by
    rw [he]; exact hS.balancesEq a
  unfold getBalance
  simp only [hbal]
  rw [he]
  simp only [hR, hA]
  have hlt : ¬ sumFor l a + ((ing.delta.removedOf a).map (valueIn l0)).sum <
      ((ing.delta.addedOf a).map (valueIn l)).sum := by omega
  simp only [hlt, if_false, Option.some.injEq]
  omega


end UtxoSet

/-! ### Filtering commutes with the merge and with insertion sort -/

section SortFilter
variable {α : Type}

/-- elements of the second sequence that are all filtered out do not disturb the first -/
theorem filter_multiIter_right (lt : α → α → Bool) (p : α → Bool) (xs ys : List α)
    (h : ∀ y ∈ ys, p y = false) : (multiIter lt xs ys).filter p = xs.filter p := by
  induction xs generalizing ys with
  | nil =>
    rw [multiIter_nil_left]
    simp only [List.filter_nil, List.filter_eq_nil_iff]
    intro y hy; simp [h y hy]
  | cons a as ih =>
    rw [multiIter_cons]
    induction ys with
    | nil => rw [multiIter_aux_nil]
    | cons b bs ihb =>
      rw [multiIter_aux_cons]
      split
      · rw [List.filter_cons, List.filter_cons, ih (b :: bs) h]
      · rw [List.filter_cons, h b List.mem_cons_self]
        simp only [Bool.false_eq_true, if_false]
        exact ihb (fun y hy => h y (List.mem_cons_of_mem _ hy))

theorem insertBy_of_head (lt : α → α → Bool) (x : α) (l : List α)
    (h : ∀ y, l.head? = some y → lt x y = true) : insertBy lt x l = x :: l := by
  cases l with
  | nil => rfl
  | cons y ys => simp [insertBy, h y rfl]

theorem filter_insertBy (lt : α → α → Bool) (p : α → Bool)
    (hmix : ∀ x y z, lt x y = true → lt z y = false → lt x z = true) (x : α) :
    ∀ (ys : List α), ys.Pairwise (fun a b => lt b a = false) →
      (insertBy lt x ys).filter p = if p x then insertBy lt x (ys.filter p) else ys.filter p
  | [], _ => by cases hp : p x <;> simp [insertBy, hp]
  | y :: ys, hs => by
    rw [List.pairwise_cons] at hs
    by_cases hlt : lt x y = true
    · have hins : insertBy lt x (y :: ys) = x :: y :: ys := by simp [insertBy, hlt]
      rw [hins, List.filter_cons]
      have hhead : insertBy lt x ((y :: ys).filter p) = x :: (y :: ys).filter p := by
        apply insertBy_of_head
        intro z hz
        have hzm : z ∈ (y :: ys).filter p := List.mem_of_mem_head? hz
        rcases List.mem_cons.1 (List.mem_filter.1 hzm).1 with rfl | hzy
        · exact hlt
        · exact hmix x y z hlt (hs.1 z hzy)
      cases hp : p x with
      | true => simp only [if_true]; rw [hhead]
      | false => simp
    · have hlt' : lt x y = false := by simpa using hlt
      have hins : insertBy lt x (y :: ys) = y :: insertBy lt x ys := by simp [insertBy, hlt']
      rw [hins, List.filter_cons, filter_insertBy lt p hmix x ys hs.2, List.filter_cons]
      cases hpy : p y with
      | true =>
        cases hp : p x with
        | true => simp [insertBy, hlt']
        | false => simp
      | false => simp

theorem filter_sortBy (lt : α → α → Bool) (p : α → Bool)
    (htrans : ∀ x y z, lt y x = false → lt z y = false → lt z x = false)
    (hasymm : ∀ x y, lt x y = true → lt y x = false) (l : List α) :
    (sortBy lt l).filter p = sortBy lt (l.filter p) := by
  have hmix : ∀ x y z, lt x y = true → lt z y = false → lt x z = true := by
    intro x y z h1 h2
    cases h3 : lt x z with
    | true => rfl
    | false =>
      -- y ≤ z and z ≤ x give y ≤ x, against x < y
      have := htrans y z x h2 h3
      rw [h1] at this; cases this
  induction l with
  | nil => rfl
  | cons x xs ih =>
    have hsorted : (sortBy lt xs).Pairwise (fun a b => lt b a = false) :=
      sortBy_pairwise lt (fun a b => lt b a = false) htrans hasymm (fun _ _ h => h) xs
    show (insertBy lt x (sortBy lt xs)).filter p = _
    rw [filter_insertBy lt p hmix x _ hsorted, ih, List.filter_cons]
    cases hp : p x with
    | true => rfl
    | false => rfl

end SortFilter

namespace UtxoSet

/-! ### Reader 3: `getAddressOutpoints` of a paused set -/

theorem rangeScan_filter (u : UtxoSet) (a : Addr) (off : Option Utxo) (q : IdxEntry → Bool) :
    (u.rangeScan a off).filter q =
      sortBy (fun x y => lexLt x.key y.key)
        (u.index.filter (fun e => q e && (lexLe (rangeStart a off) e.key && lexLe e.key (rangeEnd a)))) := by
  unfold rangeScan
  simp only
  rw [filter_sortBy _ q (fun x y z h1 h2 => lexLe_trans x.key y.key z.key h1 h2)
    (fun x y h => lexLt_asymm x.key y.key h), List.filter_filter]

theorem scan_ops_filter (u : UtxoSet) (a : Addr) (off : Option Utxo) (q1 : OutPoint → Bool) :
    (((u.rangeScan a off).filter (fun e => e.addr == a)).map (·.op)).filter q1 =
      (sortBy (fun x y => lexLt x.key y.key)
        (u.index.filter (fun e => (q1 e.op && (e.addr == a)) &&
          (lexLe (rangeStart a off) e.key && lexLe e.key (rangeEnd a))))).map (·.op) := by
  rw [List.filter_map, List.filter_filter, rangeScan_filter]
  rfl

/-- **`get_address_outpoints` during a paused ingestion.** Once the outpoints in `R` are filtered
    out — `R` containing every output of `a` that the ingesting block has already spent — the
    sequence is *identical* (same order, any offset) to the one before the ingestion began. -/
theorem getAddressOutpoints_paused {u0 : UtxoSet} {l0 : LedgerMap} {blk : Block} {u1 : UtxoSet}
    (hS0 : StableIs u0 l0) (hP : PausedView u0 l0 blk u1) (a : Addr) (off : Option Utxo)
    (R : List OutPoint)
    (hR : ∀ o t hh, AList.find? l0 o = some (t, hh) → t.addr = some a →
      AList.find? u1.utxos o = none → o ∈ R) :
    (u1.getAddressOutpoints a off).filter (fun o => !(R.contains o)) =
      (u0.getAddressOutpoints a off).filter (fun o => !(R.contains o)) := by
  obtain ⟨u', ing, l, T, he, _, _, hS, hnd, hE, hI, hT⟩ := hP.unpack
  have hutx : ∀ k, AList.find? u1.utxos k = AList.find? l k := by
    intro k; rw [he]; exact hS.utxosEq k
  -- everything the delta removed for `a` is in `R`
  have hremR : ∀ o ∈ ing.delta.removedOf a, (!(R.contains o)) = false := by
    intro o ho
    have hfo := (mem_removedOf _ hE.removedNodup a o).1 ho
    obtain ⟨h1, t, hh, h2, h3⟩ := (hE.removed o a).1 hfo
    have := hR o t hh h2 h3 (by rw [hutx]; exact h1)
    simpa using this
  rw [getAddressOutpoints_notIngesting u0 a off hS0.notIngesting]
  unfold getAddressOutpoints
  rw [he]
  simp only
  rw [filter_multiIter_right _ _ _ _ hremR]
  -- push all filters below the map, then below the sort
  have hscan : rangeScan { u' with ingesting := some ing } a off = rangeScan u' a off := rfl
  rw [hscan, List.filter_filter, scan_ops_filter, scan_ops_filter]
  congr 2
  -- the two filtered indices coincide
  let inR : IdxEntry → Bool := fun e => lexLe (rangeStart a off) e.key && lexLe e.key (rangeEnd a)
  let K : IdxEntry → Bool := fun e =>
    ((!(R.contains e.op)) && (!((ing.delta.addedOf a).contains e.op)) && (e.addr == a) && inR e) &&
      !(T.contains e.op)
  have hK := hI K (by
    intro e hKe hm
    simp only [K, Bool.and_eq_true, Bool.not_eq_true', List.contains_eq_mem,
      decide_eq_false_iff_not] at hKe
    exact hKe.2 hm)
  have hleft : u'.index.filter (fun e =>
      (((!(R.contains e.op)) && (!((ing.delta.addedOf a).contains e.op))) && (e.addr == a)) &&
        (lexLe (rangeStart a off) e.key && lexLe e.key (rangeEnd a))) = u'.index.filter K := by
    apply List.filter_congr
    intro e hmem
    simp only [K, inR]
    cases hq : ((!(R.contains e.op)) && (!((ing.delta.addedOf a).contains e.op)) && (e.addr == a)) &&
        (lexLe (rangeStart a off) e.key && lexLe e.key (rangeEnd a)) with
    | false => simp
    | true =>
      simp only [Bool.true_and]
      simp only [Bool.and_eq_true, Bool.not_eq_true', List.contains_eq_mem, decide_eq_false_iff_not,
        beq_iff_eq] at hq
      obtain ⟨⟨⟨_, hnotadded⟩, haddr⟩, _⟩ := hq
      -- a member of the raw index that is touched was added by the block
      have hnT : e.op ∉ T := by
        intro hm
        obtain ⟨t, hf, hta⟩ := (hS.indexEq e).1 hmem
        rcases hT e.op hm with h1 | h1
        · rw [hf] at h1; cases h1
        · apply hnotadded
          rw [mem_addedOf _ hE.addedNodup, hE.added]
          exact ⟨h1, t, e.height, hf, by rw [hta, haddr]⟩
      simp [hnT]
  have hright : u0.index.filter (fun e =>
      ((!(R.contains e.op)) && (e.addr == a)) &&
        (lexLe (rangeStart a off) e.key && lexLe e.key (rangeEnd a))) = u0.index.filter K := by
    apply List.filter_congr
    intro e hmem
    simp only [K, inR]
    obtain ⟨t, hf, hta⟩ := (hS0.indexEq e).1 hmem
    have hnotadded : e.op ∉ ing.delta.addedOf a := by
      intro hm
      rw [mem_addedOf _ hE.addedNodup, hE.added] at hm
      rw [hm.1] at hf; cases hf
    cases hq : ((!(R.contains e.op)) && (e.addr == a)) &&
        (lexLe (rangeStart a off) e.key && lexLe e.key (rangeEnd a)) with
    | false =>
      revert hq
      cases h1 : (!(R.contains e.op)) <;> cases h2 : (e.addr == a) <;>
        cases h3 : (lexLe (rangeStart a off) e.key && lexLe e.key (rangeEnd a)) <;> simp
    | true =>
      simp only [Bool.and_eq_true, Bool.not_eq_true', List.contains_eq_mem, decide_eq_false_iff_not,
        beq_iff_eq] at hq
      obtain ⟨⟨hnR, haddr⟩, hin⟩ := hq
      have hnT : e.op ∉ T := by
        intro hm
        rcases hT e.op hm with h1 | h1
        · exact hnR (hR e.op t e.height hf (by rw [hta, haddr]) (by rw [hutx]; exact h1))
        · rw [hf] at h1; cases h1
      simp [hnR, hnotadded, haddr, hnT, hin]
  exact (hleft.trans hK).trans hright.symm


/-- the scanned outpoints of address `a` of a clean set holding `l`: a duplicate-free list with
    exactly the outpoints of `l` that pay `a` -/
theorem scan_ops_spec (u : UtxoSet) (l : LedgerMap) (hS : StableIs u l) (hnd : (l.map (·.1)).Nodup)
    (a : Addr) :
    (((u.rangeScan a none).filter (fun e => e.addr == a)).map (·.op)).Nodup ∧
    ∀ o, o ∈ ((u.rangeScan a none).filter (fun e => e.addr == a)).map (·.op) ↔
      ∃ t hh, AList.find? l o = some (t, hh) ∧ t.addr = some a := by
  have h1 := (rangeScan_filter_perm u a).trans (index_filter_perm u l hS hnd a)
  have h2 := h1.map (·.op)
  rw [List.map_map] at h2
  have hnodup : ((lfor a l).map ((·.op) ∘ idxOf a)).Nodup := lfor_outpoints_nodup a l hnd
  refine ⟨(h2.nodup_iff).2 hnodup, fun o => ?_⟩
  rw [h2.mem_iff, List.mem_map]
  constructor
  · rintro ⟨x, hx, rfl⟩
    obtain ⟨t, hf, _, ha⟩ := find?_of_mem_lfor a l hnd x hx
    exact ⟨t, x.height, hf, ha⟩
  · rintro ⟨t, hh, hf, ha⟩
    refine ⟨⟨hh, o, t.value⟩, (mem_lfor a l _).2 ⟨t, AList.mem_of_find? l o _ hf, ha, rfl⟩, rfl⟩

/-- **Unconditional fallback**: without any filter, `get_address_outpoints` of a paused set is a
    permutation of the sequence before the ingestion began (the order may differ: the re-added
    outpoints are merged in outpoint order). -/
theorem getAddressOutpoints_paused_perm {u0 : UtxoSet} {l0 : LedgerMap} {blk : Block} {u1 : UtxoSet}
    (hS0 : StableIs u0 l0) (hnd0 : (l0.map (·.1)).Nodup) (hP : PausedView u0 l0 blk u1) (a : Addr) :
    (u1.getAddressOutpoints a none).Perm (u0.getAddressOutpoints a none) := by
  obtain ⟨u', ing, l, T, he, _, _, hS, hnd, hE, _, _⟩ := hP.unpack
  obtain ⟨hnd0', hmem0⟩ := scan_ops_spec u0 l0 hS0 hnd0 a
  obtain ⟨hnd', hmem'⟩ := scan_ops_spec u' l hS hnd a
  rw [getAddressOutpoints_notIngesting u0 a none hS0.notIngesting]
  unfold getAddressOutpoints
  rw [he]
  simp only
  have hscan : rangeScan { u' with ingesting := some ing } a none = rangeScan u' a none := rfl
  rw [hscan]
  refine (multiIter_perm _ _ _).trans ?_
  have hdisj : ∀ o, o ∈ (((u'.rangeScan a none).filter (fun e => e.addr == a)).map (·.op)).filter
      (fun o => !((ing.delta.addedOf a).contains o)) → o ∉ ing.delta.removedOf a := by
    intro o ho hr
    obtain ⟨t, hh, hf, _⟩ := (hmem' o).1 (List.mem_filter.1 ho).1
    have := ((hE.removed o a).1 ((mem_removedOf _ hE.removedNodup a o).1 hr)).1
    rw [hf] at this; cases this
  rw [List.perm_ext_iff_of_nodup ?_ hnd0']
  · intro o
    rw [List.mem_append, hmem0, List.mem_filter, hmem', mem_removedOf _ hE.removedNodup, hE.removed]
    simp only [Bool.not_eq_true', List.contains_eq_mem, decide_eq_false_iff_not]
    rw [mem_addedOf _ hE.addedNodup, hE.added]
    constructor
    · rintro (⟨⟨t, hh, hf, ha⟩, hna⟩ | ⟨_, t, hh, hf, ha⟩)
      · cases hl0 : AList.find? l0 o with
        | none => exact absurd ⟨hl0, t, hh, hf, ha⟩ hna
        | some e0 =>
          have := hE.persist o (t, hh) e0 hf hl0
          exact ⟨t, hh, by rw [this], ha⟩
      · exact ⟨t, hh, hf, ha⟩
    · rintro ⟨t, hh, hf, ha⟩
      cases hl : AList.find? l o with
      | none => exact Or.inr ⟨rfl, t, hh, hf, ha⟩
      | some e =>
        left
        have := hE.persist o e (t, hh) hl hf
        refine ⟨⟨t, hh, by rw [this], ha⟩, ?_⟩
        rintro ⟨h0, _⟩
        rw [hf] at h0; cases h0
  · rw [List.nodup_append]
    refine ⟨hnd'.sublist List.filter_sublist, removedOf_nodup _ hE.removedNodup a, ?_⟩
    intro x hx y hy hxy
    subst hxy
    exact hdisj x hx hy

end UtxoSet
end Btc
