import BtcModel.Lemmas.FullSysStep
import BtcModel.Props.C15Spec

/-!
  `Spec.FeeCacheOk` (the fee rates stored with a block at insertion time are the specified rates
  of the block on its own chain) is an invariant of the extended system `Spec.step2` — including
  ingestions that pause and are resumed — and hence of the message-level system; with it the
  fee-percentile computation never traps (`C15Spec.feePercentiles_isSome`).
-/
namespace Btc.Lemmas.FullSys
open Btc Btc.State Btc.Spec Btc.Spec.Full Btc.Lemmas.Reach Btc.Lemmas.Reach2 Btc.Lemmas.Fetch
open Btc.Lemmas.FeeSpec

theorem feeCacheOk_frame {s s' : State} {G : List Block} (hf : Frame s s') (h : FeeCacheOk s G) :
    FeeCacheOk s' G := feeCacheOk_congr (by rw [hf.unstable]) h

/-- popping stable anchors preserves `FeeCacheOk` (the ghost is extended by the popped anchors) -/
theorem feeCacheOk_popSteps (bound : Unstable.BoundFn) {s sk : State} {G popped : List Block}
    (hI : InvU s G) (hf : FeeCacheOk s G) (hk : Inv sk (G ++ popped))
    (hp : PopSteps bound s.unstable G.length popped sk.unstable) : FeeCacheOk sk (G ++ popped) := by
  refine (feeCacheOk_iff hk).mpr ?_
  have hm := (feeCacheOk_iff hI.inv).mp hf
  have hsl := popSteps_sublist bound hp
  have hpath := popSteps_path bound hp (tree_hashes_nodup hI.inv)
  apply FeeCacheOkT.shrink hm hI.inv.txids _ (fun c hc => hsl.subset hc) hk.caches
  intro b hb
  simp only [List.mem_append, List.mem_map] at hb ⊢
  rcases hb with (hg | hpop) | ⟨c, hc, rfl⟩
  · exact Or.inl hg
  · obtain ⟨c, hc, rfl⟩ := pathBlocks_mem hpath b (List.mem_append_left _ hpop)
    exact Or.inr ⟨c, hc, rfl⟩
  · exact Or.inr ⟨c, hsl.subset hc, rfl⟩

/-- an ingestion that pauses, from a clean state -/
theorem ingest_paused_fee (bound : Unstable.BoundFn) {s : State} {G : List Block} (budget : Nat)
    {sp : State} (hA : InvAll s G) (hf : FeeCacheOk s G)
    (h : s.ingestStable bound budget = .paused sp) : FeeCacheOk sp (G ++ poppedAnchors s sp) := by
  rw [Props.C08.ingestStable_eq_loop bound s G budget hA.invU.inv] at h
  have hN : NextInvAt s.unstable G.length := by
    have := hA.next; unfold NextInv at this; rwa [hA.invU.inv.heightEq] at this
  obtain ⟨popped, sk, A, B', k1, _, _, k4, k5⟩ :=
    ingestNewStable_paused_all bound _ s G budget false sp hA.invU hN hA.headers h
  have hun : sp.unstable = sk.unstable := k4.base.unstable
  have hpa : poppedAnchors s sp = popped := by
    rw [poppedAnchors_congr_right s hun]
    exact poppedAnchors_of_popSteps hA.invU.inv k5
  rw [hpa]
  exact feeCacheOk_congr (by rw [hun]) (feeCacheOk_popSteps bound hA.invU hf k1.inv k5)

/-- an ingestion step (completed or paused) from a clean state -/
theorem ingest_clean_fee (bound : Unstable.BoundFn) {s : State} {G : List Block} (b : Nat)
    (hA : InvAll s G) (hf : FeeCacheOk s G) :
    match s.ingestStable bound b with
    | .done s' _ => FeeCacheOk s' (G ++ poppedAnchors s s')
    | .paused sp => FeeCacheOk sp (G ++ poppedAnchors s sp)
    | .trap _ => True := by
  have h1 := feeCacheOk_ingest bound s G b hA.invU hf
  cases hr : s.ingestStable bound b with
  | trap m => trivial
  | done s1 w => rw [hr] at h1; exact h1.2.1
  | paused sp => exact ingest_paused_fee bound b hA hf hr

/-- **every step of the extended system preserves `FeeCacheOk`** -/
theorem step2_preserves_fee (bound : Unstable.BoundFn) (s : State) (G : List Block) (op : Op)
    (s' : State) (G' : List Block) (h2 : Inv2 s G) (hf : FeeCacheOk s G) (hd : Domain2 (s, G) op)
    (hs : step2 bound (s, G) op = some (s', G')) : FeeCacheOk s' G' := by
  cases op with
  | ingest b =>
    rw [step2_ingest] at hs
    simp only at hs
    rcases h2 with hA | ⟨s0, A, B, hA, hP⟩
    · have := ingest_clean_fee bound b hA hf
      cases hr : s.ingestStable bound b with
      | trap m => rw [hr] at hs; cases hs
      | done s1 w =>
        rw [hr] at hs this
        simp only [Option.some.injEq, Prod.mk.injEq] at hs
        obtain ⟨rfl, rfl⟩ := hs
        exact this
      | paused sp =>
        rw [hr] at hs this
        simp only [Option.some.injEq, Prod.mk.injEq] at hs
        obtain ⟨rfl, rfl⟩ := hs
        exact this
    · have hf0 : FeeCacheOk s0 G := feeCacheOk_congr (by rw [hP.unstable]) hf
      rcases resume_cases bound hA hP b with ⟨u2, h1, _, _⟩ | ⟨m, h1⟩ | h1
      · rw [h1] at hs
        simp only [Option.some.injEq, Prod.mk.injEq] at hs
        obtain ⟨rfl, rfl⟩ := hs
        rw [poppedAnchors_same (s := s) (x := { s with utxos := u2 }) rfl, List.append_nil]
        exact feeCacheOk_congr rfl hf
      · rw [h1] at hs; cases hs
      · rw [h1] at hs
        have := ingest_clean_fee bound (B + b) hA hf0
        cases hr : s0.ingestStable bound (B + b) with
        | trap m => rw [hr] at hs; cases hs
        | done s1 w =>
          rw [hr] at hs this
          simp only [Option.some.injEq, Prod.mk.injEq] at hs
          obtain ⟨rfl, rfl⟩ := hs
          rw [poppedAnchors_congr hP.unstable]
          exact this
        | paused sp =>
          rw [hr] at hs this
          simp only [Option.some.injEq, Prod.mk.injEq] at hs
          obtain ⟨rfl, rfl⟩ := hs
          rw [poppedAnchors_congr hP.unstable]
          exact this
  | push b =>
    rcases h2 with hA | ⟨s0, A, B, hA, hP⟩
    · exact (step_preserves bound s G (.push b) s' G' hA.invU hf hd.2 hs).2.1
    · obtain ⟨ing, hi, _⟩ := hP.ingesting
      have := hd.1
      simp only at this
      rw [hi] at this
      cases this
  | setConfig c =>
    simp only [step2, step, Option.some.injEq, Prod.mk.injEq] at hs
    obtain ⟨rfl, rfl⟩ := hs
    exact feeCacheOk_setConfig s G c hf
  | upgrade c =>
    simp only [step2, step, Option.some.injEq, Prod.mk.injEq] at hs
    obtain ⟨rfl, rfl⟩ := hs
    exact feeCacheOk_upgrade s G c
  | query =>
    simp only [step2, step, Option.some.injEq, Prod.mk.injEq] at hs
    obtain ⟨rfl, rfl⟩ := hs
    exact hf
  | insertNext hd' =>
    simp only [step2, step] at hs
    split at hs
    · simp only [Option.some.injEq, Prod.mk.injEq] at hs
      obtain ⟨rfl, rfl⟩ := hs
      exact hf
    · cases hi : s.unstable.insertNextHeader hd' s.stableHeight with
      | none =>
        rw [hi] at hs
        simp only [Option.some.injEq, Prod.mk.injEq] at hs
        obtain ⟨rfl, rfl⟩ := hs
        exact hf
      | some u =>
        rw [hi] at hs
        simp only [Option.some.injEq, Prod.mk.injEq] at hs
        obtain ⟨rfl, rfl⟩ := hs
        exact feeCacheOk_congr (insertNextHeader_tree hi) hf

/-- runs preserve the invariant together with `FeeCacheOk` -/
theorem frameRun_fee {bound : Unstable.BoundFn} {sg sg' : State × List Block} {ops : List Op}
    (hr : FrameRun bound sg ops sg') (h : Inv2 sg.1 sg.2) (hf : FeeCacheOk sg.1 sg.2) :
    Inv2 sg'.1 sg'.2 ∧ FeeCacheOk sg'.1 sg'.2 := by
  induction hr with
  | nil sg => exact ⟨h, hf⟩
  | frame sg s1 ops sg2 hfr _ ih => exact ih (inv2_frame hfr h) (feeCacheOk_frame hfr hf)
  | op sg o sg1 ops sg2 hd hs _ ih =>
    exact ih (step2_preserves_inv2 bound sg.1 sg.2 o sg1.1 sg1.2 h hd hs)
      (step2_preserves_fee bound sg.1 sg.2 o sg1.1 sg1.2 h hf hd hs)

/-- **`FeeCacheOk` holds in every reachable configuration of the message-level system** -/
theorem fullReachable_fee {sys : Fetch.Sys} {G : List Block} (h : FullReachable sys G) :
    Inv2 sys.st G ∧ FeeCacheOk sys.st G := by
  induction h with
  | init thr net genesis s0 hv hn =>
    exact ⟨Or.inl (init_establishes_invAll thr net genesis s0 hv hn), feeCacheOk_new hv hn⟩
  | step sys G env m _ ht ih => exact frameRun_fee (stepMsg_sim env (sys, G) m ht) ih.1 ih.2

/-- **the fee-percentile computation never traps in a reachable configuration**, paused or not -/
theorem feePercentiles_isSome {sys : Fetch.Sys} {G : List Block} (h : FullReachable sys G) (n : Nat) :
    (sys.st.feePercentiles n).isSome = true := by
  obtain ⟨h2, hf⟩ := fullReachable_fee h
  rcases h2 with hA | ⟨s0, A, B, hA, hP⟩
  · exact Props.C15Spec.feePercentiles_isSome hA.invU.inv hf n
  · have hf0 : FeeCacheOk s0 G := feeCacheOk_congr (by rw [hP.unstable]) hf
    have h0 := Props.C15Spec.feePercentiles_isSome hA.invU.inv hf0 n
    have hv := Props.C08.feePercentiles_invisible hP.base n
    cases hs : sys.st.feePercentiles n with
    | some x => rfl
    | none =>
      rw [hs] at hv
      cases h0' : s0.feePercentiles n with
      | none => rw [h0'] at h0; cases h0
      | some y => rw [h0'] at hv; cases hv

/-- **`maybe_compute_fee_percentiles` never traps**: after `maybe_process_response` of a heartbeat
    in a reachable configuration the fee percentiles can be computed -/
theorem heartbeat_fee_isSome {sys : Fetch.Sys} {G : List Block} (h : FullReachable sys G) (env : Env)
    (budget : Nat) (ht : Trusted env (sys, G) (.heartbeat budget))
    (hi : sys.st.ingestStable env.bound budget = .done sys.st false) (s2 : State)
    (hp : processResponse env sys.st = some s2) (n : Nat) : (s2.feePercentiles n).isSome = true := by
  obtain ⟨h2, hf⟩ := fullReachable_fee h
  have hni := (ingestStable_done_false' hi).2
  have hrun := processResponse_run env.bound env sys.st s2 G hni (ht (pastIngestion_iff.mpr hi)) hp
  obtain ⟨k2, kf⟩ := frameRun_fee hrun h2 hf
  have hn2 : s2.utxos.ingesting = none := by
    have : ∀ (sg sg' : State × List Block) (ops : List Op), FrameRun env.bound sg ops sg' →
        (∀ o ∈ ops, ∀ b, o ≠ .ingest b) → sg'.1.utxos = sg.1.utxos := by
      intro sg sg' ops hr
      induction hr with
      | nil sg => intro _; rfl
      | frame sg s1 ops sg2 hfr _ ih => intro hno; rw [ih hno]; exact hfr.utxos
      | op sg o sg1 ops sg2 hd hs _ ih =>
        intro hno
        rw [ih (fun o' ho' => hno o' (List.mem_cons_of_mem _ ho'))]
        have hne := hno o List.mem_cons_self
        cases o with
        | ingest b => exact absurd rfl (hne b)
        | push b =>
          simp only [step2, step] at hs
          split at hs
          · cases hs; rfl
          · cases hs
        | setConfig c => cases hs; exact (setConfig_frame sg.1 c).1
        | upgrade c => cases hs; exact utxos_upgrade sg.1 c
        | query => cases hs; rfl
        | insertNext hd' =>
          simp only [step2, step] at hs
          split at hs
          · cases hs; rfl
          · split at hs <;> (cases hs; rfl)
    have hu := this _ _ _ hrun (by
      intro o ho b
      unfold finishOps at ho
      split at ho
      · unfold processOps at ho
        simp only [List.mem_append, List.mem_map] at ho
        rcases ho with ⟨x, _, rfl⟩ | ho
        · intro e; cases e
        · split at ho
          · obtain ⟨x, _, rfl⟩ := List.mem_map.mp ho
            intro e; cases e
          · cases ho
      · cases ho)
    rw [hu]; exact hni
  rcases k2 with hA | ⟨s0, A, B, hA, hP⟩
  · exact Props.C15Spec.feePercentiles_isSome hA.invU.inv kf n
  · obtain ⟨ing, hi', _⟩ := hP.ingesting
    rw [hn2] at hi'; cases hi'

end Btc.Lemmas.FullSys
