import BtcModel.Spec.FetchProtocol

/-!
Helper lemmas for C13 / C10: which parts of the state the pieces of the heartbeat touch
(frame lemmas), a normal form of `heartbeatStart`, and list/tree facts used for acceptance.
-/
namespace Btc.Lemmas.Fetch
open Btc Btc.State

/-! ### Ingestion does not touch the fetch state -/

theorem popBlock_syncing {bound : Unstable.BoundFn} {s s' : State} {h : Nat}
    (hp : popBlock bound s h = some s') : s'.syncing = s.syncing := by
  unfold popBlock at hp
  split at hp
  · split at hp
    · cases hp; rfl
    · cases hp
  · cases hp

/-- what an ingestion result says about the fetch state -/
def IngestResult.syncingIs (sy : SyncingState) : IngestResult → Prop
  | .paused s' => s'.syncing = sy
  | .done s' _ => s'.syncing = sy
  | .trap _ => True

theorem ingestNewStable_syncing (bound : Unstable.BoundFn) (fuel : Nat) (s : State) (budget : Nat)
    (w : Bool) : IngestResult.syncingIs s.syncing (ingestNewStable bound fuel s budget w) := by
  induction fuel generalizing s budget w with
  | zero => simp [ingestNewStable, IngestResult.syncingIs]
  | succ n ih =>
    unfold ingestNewStable
    split
    · simp [IngestResult.syncingIs]
    · dsimp only
      split
      · simp [IngestResult.syncingIs]
      · simp [IngestResult.syncingIs]
      · split
        · simp [IngestResult.syncingIs]
        · rename_i s2 hp
          have := popBlock_syncing hp
          have h2 : ∀ b, IngestResult.syncingIs s2.syncing (ingestNewStable bound n s2 b true) :=
            fun b => ih s2 b true
          rw [this] at h2
          exact h2 _

theorem ingestStable_syncing (bound : Unstable.BoundFn) (s : State) (budget : Nat) :
    IngestResult.syncingIs s.syncing (ingestStable bound s budget) := by
  unfold ingestStable
  dsimp only
  split
  · exact ingestNewStable_syncing ..
  · simp [IngestResult.syncingIs]
  · simp [IngestResult.syncingIs]
  · split
    · simp [IngestResult.syncingIs]
    · rename_i s2 hp
      have := popBlock_syncing hp
      have h2 := ingestNewStable_syncing bound (s.unstable.tree.blocksCount + 1) s2 ‹_› true
      rw [this] at h2
      exact h2

/-- once work has been done the loop never reports "no work" -/
theorem ingestNewStable_true (bound : Unstable.BoundFn) (fuel : Nat) (s : State) (budget : Nat)
    (s' : State) (d : Bool) (h : ingestNewStable bound fuel s budget true = .done s' d) : d = true := by
  induction fuel generalizing s budget with
  | zero => simp [ingestNewStable] at h; exact h.2
  | succ n ih =>
    unfold ingestNewStable at h
    split at h
    · cases h; rfl
    · dsimp only at h
      split at h
      · cases h
      · cases h
      · split at h
        · cases h
        · exact ih _ _ h

/-- "nothing was ingested" means the state is untouched -/
theorem ingestStable_done_false {bound : Unstable.BoundFn} {s s' : State} {budget : Nat}
    (h : ingestStable bound s budget = .done s' false) : s' = s := by
  unfold ingestStable at h
  dsimp only at h
  split at h
  · -- nothing to continue: the loop starts with `didWork = false`
    unfold ingestNewStable at h
    split at h
    · cases h; rfl
    · dsimp only at h
      split at h
      · cases h
      · cases h
      · split at h
        · cases h
        · exact absurd (ingestNewStable_true _ _ _ _ _ _ h) (by simp)
  · cases h
  · cases h
  · split at h
    · cases h
    · exact absurd (ingestNewStable_true _ _ _ _ _ _ h) (by simp)

/-! ### Acceptance does not touch the fetch state (except the two error counters) -/

theorem insertBlock_ok_eq {env : Env} {s s' : State} {b : Block} (h : insertBlock env s b = .ok s') :
    ∃ u, s.unstable.push s.utxos b = .ok u ∧ s' = { s with unstable := u } := by
  unfold insertBlock at h
  split at h
  · cases h
  · cases h
  · split at h
    · cases h
    · cases h
    · split at h
      · cases h
      · split at h
        · rename_i u hu
          cases h
          exact ⟨u, hu, rfl⟩
        · cases h

theorem insertBlock_ok_syncing {env : Env} {s s' : State} {b : Block}
    (h : insertBlock env s b = .ok s') : s'.syncing = s.syncing := by
  obtain ⟨u, _, rfl⟩ := insertBlock_ok_eq h
  rfl

/-- the fetch state after the block loop: everything but the two error counters is as before -/
theorem processBlocks_frame (env : Env) (s : State) (blobs : List String) (s1 : State) (stopped : Bool)
    (h : processBlocks env s blobs = some (s1, stopped)) :
    s1.syncing.syncing = s.syncing.syncing ∧ s1.syncing.isFetching = s.syncing.isFetching ∧
    s1.syncing.response = s.syncing.response ∧ s1.syncing.rejects = s.syncing.rejects := by
  induction blobs generalizing s with
  | nil => simp [processBlocks] at h; obtain ⟨rfl, _⟩ := h; simp
  | cons blob rest ih =>
    unfold processBlocks at h
    split at h
    · cases h; simp
    · split at h
      · cases h
      · cases h; simp
      · rename_i s' hs'
        have := insertBlock_ok_syncing hs'
        have := ih s' h
        simp_all

theorem insertNextHeadersAll_syncing (env : Env) (s : State) (raws : List String) (s1 : State)
    (h : insertNextHeadersAll env s raws = some s1) : s1.syncing = s.syncing := by
  induction raws generalizing s with
  | nil => simp [insertNextHeadersAll] at h; rw [h]
  | cons raw rest ih =>
    unfold insertNextHeadersAll at h
    split at h
    · cases h; rfl
    · split at h
      · exact ih _ h
      · split at h
        · cases h; rfl
        · split at h
          · cases h
          · cases h; rfl
          · split at h
            · cases h; rfl
            · have := ih _ h
              exact this

theorem insertNextHeaders_syncing (env : Env) (s : State) (raws : List String) (s1 : State)
    (h : insertNextHeaders env s raws = some s1) : s1.syncing = s.syncing :=
  insertNextHeadersAll_syncing env s _ s1 h

theorem feePercentiles_syncing {s s' : State} {n : Nat} {p : List Nat}
    (h : s.feePercentiles n = some (s', p)) : s'.syncing = s.syncing := by
  have hr : ∀ chain tip, feePercentiles.recompute s n chain tip = some (s', p) → s'.syncing = s.syncing := by
    intro chain tip hr
    unfold feePercentiles.recompute at hr
    split at hr
    · cases hr
    · split at hr
      · cases hr; rfl
      · cases hr; rfl
  unfold feePercentiles at h
  dsimp only at h
  split at h
  · split at h
    · cases h; rfl
    · exact hr _ _ h
  · exact hr _ _ h

theorem processResponse_frame (env : Env) (s s' : State) (h : processResponse env s = some s') :
    s'.syncing.syncing = s.syncing.syncing ∧ s'.syncing.isFetching = s.syncing.isFetching ∧
    s'.syncing.rejects = s.syncing.rejects := by
  unfold processResponse at h
  split at h
  · dsimp only at h
    split at h
    · cases h
    · cases h
      have := processBlocks_frame _ _ _ _ _ ‹_›
      simp_all
    · have := processBlocks_frame _ _ _ _ _ ‹_›
      have := insertNextHeaders_syncing _ _ _ _ h
      simp_all
  · cases h; simp

/-! ### Configuration and upgrade -/

theorem setConfig_isFetching (s : State) (c : SetConfig) :
    (setConfig s c).syncing.isFetching = s.syncing.isFetching ∧
    (setConfig s c).syncing.response = s.syncing.response := by
  obtain ⟨a, b, c, d, e, f⟩ := c
  cases a <;> cases b <;> cases c <;> cases d <;> cases e <;> cases f <;> simp [setConfig]

theorem upgrade_fetch (s : State) (c : Option SetConfig) :
    (upgrade s c).syncing.isFetching = false ∧ (upgrade s c).syncing.response = none := by
  unfold upgrade
  cases c with
  | none => simp
  | some c =>
    dsimp only
    have := setConfig_isFetching
      { s with syncing := { s.syncing with isFetching := false, response := none },
               unstable := { s.unstable.clearMetrics with tipDepthsCache := s.unstable.tree.tipDepths } } c
    simp_all

/-! ### Normal form of the heartbeat -/

/-- `maybe_fetch_blocks` up to the call: syncing flag, fetch guard, request selection -/
def fetchDecision (s : State) : Option (Option Request) :=
  if !s.syncing.syncing then some none
  else if s.syncing.isFetching then some none
  else successorsRequest s

/-- `maybe_process_response(); maybe_compute_fee_percentiles()` -/
def finish (env : Env) (s : State) : HbResult :=
  match processResponse env s with
  | none => .trap
  | some s2 =>
    if s2.lazyFees then .processed s2
    else match s2.feePercentiles env.numTransactions with
      | none => .trap
      | some (s3, _) => .processed s3

/-- the heartbeat after an ingestion round that did nothing -/
def afterIngest (env : Env) (s : State) : HbResult :=
  match fetchDecision s with
  | none => .trap
  | some (some req) => .awaiting { s with syncing := { s.syncing with isFetching := true } } req
  | some none => finish env s

theorem heartbeatStart_eq (env : Env) (s : State) (budget : Nat) :
    heartbeatStart env s budget =
      match s.ingestStable env.bound budget with
      | .trap _ => .trap
      | .paused s' => .ingested s' true
      | .done s' true => .ingested s' false
      | .done s' false => afterIngest env s' := by
  unfold heartbeatStart
  cases ingestStable env.bound s budget with
  | trap m => rfl
  | paused s' => rfl
  | done s' w => cases w <;> rfl

theorem finish_frame {env : Env} {s s' : State} (h : finish env s = .processed s') :
    s'.syncing.syncing = s.syncing.syncing ∧ s'.syncing.isFetching = s.syncing.isFetching ∧
    s'.syncing.rejects = s.syncing.rejects ∧
    ∃ s2, processResponse env s = some s2 ∧ s'.syncing = s2.syncing := by
  unfold finish at h
  split at h
  · cases h
  · rename_i s2 h2
    have hf := processResponse_frame _ _ _ h2
    have key : s'.syncing = s2.syncing := by
      split at h
      · cases h; rfl
      · split at h
        · cases h
        · rename_i s3 p h3
          cases h
          exact feePercentiles_syncing h3
    rw [key]
    exact ⟨hf.1, hf.2.1, hf.2.2, s2, h2, rfl⟩

theorem finish_ne_awaiting (env : Env) (s s' : State) (r : Request) : finish env s ≠ .awaiting s' r := by
  unfold finish
  split
  · simp
  · split
    · simp
    · split <;> simp

theorem finish_ne_ingested (env : Env) (s s' : State) (b : Bool) : finish env s ≠ .ingested s' b := by
  unfold finish
  split
  · simp
  · split
    · simp
    · split <;> simp

/-! ### `BlockTree::extend` versus `get_chain_with_tip` and the pre-order listing -/

section TreeFacts
open Tree
variable {α : Type}

theorem rootsOf_append (cs ds : List (Tree α)) : rootsOf (cs ++ ds) = rootsOf cs ++ rootsOf ds := by
  induction cs with
  | nil => rfl
  | cons c cs ih => simp [rootsOf, ih]

theorem blocksList_append (cs ds : List (Tree α)) :
    blocksList (cs ++ ds) = blocksList cs ++ blocksList ds := by
  induction cs with
  | nil => rfl
  | cons c cs ih => simp [blocksList, ih]

mutual
/-- extending a tree adds exactly the new block to the pre-order listing -/
theorem extend_perm (h : α → Nat) (p : Nat) (b : α) :
    ∀ (t t' : Tree α), extend h p b t = some t' → (blocks t').Perm (b :: blocks t)
  | .node r cs, t', he => by
    simp only [extend] at he
    split at he
    · cases he
      simp only [blocks, blocksList_append, blocksList, List.append_nil]
      have : (blocksList cs ++ [b]).Perm (b :: blocksList cs) := by
        simp
      exact (List.Perm.cons r this).trans (List.Perm.swap b r _)
    · split at he
      · rename_i cs' hcs
        cases he
        have := extendList_perm h p b cs cs' hcs
        simp only [blocks]
        exact (List.Perm.cons r this).trans (List.Perm.swap b r _)
      · cases he
theorem extendList_perm (h : α → Nat) (p : Nat) (b : α) :
    ∀ (cs cs' : List (Tree α)), extendList h p b cs = some cs' →
      (blocksList cs').Perm (b :: blocksList cs)
  | [], _, he => by simp [extendList] at he
  | c :: cs, cs', he => by
    simp only [extendList] at he
    split at he
    · rename_i c' hc
      cases he
      have := extend_perm h p b c c' hc
      simp only [blocksList]
      exact this.append_right _
    · split at he
      · rename_i cs'' hcs
        cases he
        have := extendList_perm h p b cs cs'' hcs
        simp only [blocksList]
        exact (List.Perm.append_left _ this).trans List.perm_middle
      · cases he
end

mutual
/-- `extend` fails exactly when the parent is not in the tree -/
theorem extend_none_iff (h : α → Nat) (p : Nat) (b : α) :
    ∀ (t : Tree α), extend h p b t = none ↔ chainWithTip h p t = none
  | .node r cs => by
    simp only [extend, chainWithTip]
    have := extendList_none_iff h p b cs
    split
    · simp
    · cases he : extendList h p b cs <;> cases hc : chainWithTipList h p cs <;> simp_all
theorem extendList_none_iff (h : α → Nat) (p : Nat) (b : α) :
    ∀ (cs : List (Tree α)), extendList h p b cs = none ↔ chainWithTipList h p cs = none
  | [] => by simp [extendList, chainWithTipList]
  | c :: cs => by
    simp only [extendList, chainWithTipList]
    have h1 := extend_none_iff h p b c
    have h2 := extendList_none_iff h p b cs
    cases he : extend h p b c <;> cases hc : chainWithTip h p c <;>
      cases he2 : extendList h p b cs <;> cases hc2 : chainWithTipList h p cs <;> simp_all
end

mutual
/-- `extend` puts the new block under the very block that `get_chain_with_tip` finds (the first
    one in pre-order with the parent's hash), as its last child; the chain to it is unchanged -/
theorem extend_chain (h : α → Nat) (p : Nat) (b : α) :
    ∀ (t t' : Tree α), extend h p b t = some t' →
      ∃ chain succ, chainWithTip h p t = some (chain, succ) ∧
        chainWithTip h p t' = some (chain, succ ++ [b])
  | .node r cs, t', he => by
    simp only [extend] at he
    split at he
    · rename_i hr
      cases he
      refine ⟨[r], rootsOf cs, by simp [chainWithTip, hr], ?_⟩
      simp [chainWithTip, hr, rootsOf_append, rootsOf]
    · rename_i hr
      split at he
      · rename_i cs' hcs
        cases he
        obtain ⟨chain, succ, h1, h2⟩ := extendList_chain h p b cs cs' hcs
        exact ⟨r :: chain, succ, by simp [chainWithTip, hr, h1], by simp [chainWithTip, hr, h2]⟩
      · cases he
theorem extendList_chain (h : α → Nat) (p : Nat) (b : α) :
    ∀ (cs cs' : List (Tree α)), extendList h p b cs = some cs' →
      ∃ chain succ, chainWithTipList h p cs = some (chain, succ) ∧
        chainWithTipList h p cs' = some (chain, succ ++ [b])
  | [], _, he => by simp [extendList] at he
  | c :: cs, cs', he => by
    simp only [extendList] at he
    split at he
    · rename_i c' hc
      cases he
      obtain ⟨chain, succ, h1, h2⟩ := extend_chain h p b c c' hc
      exact ⟨chain, succ, by simp [chainWithTipList, h1], by simp [chainWithTipList, h2]⟩
    · rename_i hc
      split at he
      · rename_i cs'' hcs
        cases he
        obtain ⟨chain, succ, h1, h2⟩ := extendList_chain h p b cs cs'' hcs
        have hn : chainWithTip h p c = none := (extend_none_iff h p b c).mp hc
        exact ⟨chain, succ, by simp [chainWithTipList, hn, h1], by simp [chainWithTipList, hn, h2]⟩
      · cases he
end

/-- if the parent is found, `extend` succeeds -/
theorem extend_isSome_of_chain (h : α → Nat) (p : Nat) (b : α) (t : Tree α) (x : List α × List α)
    (hc : chainWithTip h p t = some x) : ∃ t', extend h p b t = some t' := by
  cases he : extend h p b t with
  | some t' => exact ⟨t', rfl⟩
  | none => rw [(extend_none_iff h p b t).mp he] at hc; cases hc

theorem rootsOf_subset_blocksList (cs : List (Tree α)) : ∀ x ∈ rootsOf cs, x ∈ blocksList cs := by
  induction cs with
  | nil => simp [rootsOf]
  | cons c cs ih =>
    cases c with
    | node r ds =>
      intro x hx
      simp only [rootsOf, List.mem_cons] at hx
      simp only [blocksList, blocks, List.cons_append, List.mem_cons, List.mem_append]
      rcases hx with rfl | hx
      · exact .inl rfl
      · exact .inr (.inr (ih x hx))

mutual
/-- the block `get_chain_with_tip` finds is in the tree -/
theorem chainWithTip_some_mem (h : α → Nat) (tip : Nat) :
    ∀ (t : Tree α) (x : List α × List α), chainWithTip h tip t = some x → tip ∈ (blocks t).map h
  | .node r cs, x, hc => by
    simp only [chainWithTip] at hc
    split at hc
    · rename_i hr; simp [blocks, hr]
    · split at hc
      · rename_i p su hl
        have := chainWithTipList_some_mem h tip cs _ hl
        simp only [blocks, List.map_cons, List.mem_cons]
        exact .inr this
      · cases hc
theorem chainWithTipList_some_mem (h : α → Nat) (tip : Nat) :
    ∀ (cs : List (Tree α)) (x : List α × List α), chainWithTipList h tip cs = some x →
      tip ∈ (blocksList cs).map h
  | [], _, hc => by simp [chainWithTipList] at hc
  | c :: cs, x, hc => by
    simp only [chainWithTipList] at hc
    simp only [blocksList, List.map_append, List.mem_append]
    split at hc
    · rename_i y hy
      exact .inl (chainWithTip_some_mem h tip c y hy)
    · exact .inr (chainWithTipList_some_mem h tip cs x hc)
end

open Btc.Spec.Fetch in
mutual
/-- in a properly linked tree without duplicate hashes, `get_chain_with_tip` applied to the parent
    hash of any non-root block finds that block among the children it returns -/
theorem child_of_parent (h p : α → Nat) :
    ∀ (t : Tree α), Linked h p t → ((blocks t).map h).Nodup → ∀ x ∈ blocks t,
      x = t.root ∨ ∃ chain succ, chainWithTip h (p x) t = some (chain, succ) ∧ x ∈ succ
  | .node r cs, hl, hn, x, hx => by
    simp only [blocks, List.mem_cons] at hx
    rcases hx with rfl | hx
    · exact .inl rfl
    · right
      simp only [Linked] at hl
      simp only [blocks, List.map_cons, List.nodup_cons] at hn
      rcases childList_of_parent h p cs hl.2 hn.2 x hx with hr | ⟨chain, succ, hc, hs⟩
      · have := hl.1 x hr
        exact ⟨[r], rootsOf cs, by simp [chainWithTip, this], hr⟩
      · have hm := chainWithTipList_some_mem h (p x) cs _ hc
        have hne : ¬ (h r = p x) := fun he => hn.1 (he ▸ hm)
        exact ⟨r :: chain, succ, by simp [chainWithTip, hne, hc], hs⟩
theorem childList_of_parent (h p : α → Nat) :
    ∀ (cs : List (Tree α)), LinkedList h p cs → ((blocksList cs).map h).Nodup → ∀ x ∈ blocksList cs,
      x ∈ rootsOf cs ∨ ∃ chain succ, chainWithTipList h (p x) cs = some (chain, succ) ∧ x ∈ succ
  | [], _, _, x, hx => by simp [blocksList] at hx
  | c :: cs, hl, hn, x, hx => by
    simp only [LinkedList] at hl
    simp only [blocksList, List.map_append] at hn
    have hn1 := (List.nodup_append.mp hn).1
    have hn2 := (List.nodup_append.mp hn).2.1
    have hdis := (List.nodup_append.mp hn).2.2
    simp only [blocksList, List.mem_append] at hx
    rcases hx with hx | hx
    · rcases child_of_parent h p c hl.1 hn1 x hx with rfl | ⟨chain, succ, hc, hs⟩
      · left
        cases c with
        | node r ds => simp [rootsOf, root]
      · right
        exact ⟨chain, succ, by simp [chainWithTipList, hc], hs⟩
    · rcases childList_of_parent h p cs hl.2 hn2 x hx with hr | ⟨chain, succ, hc, hs⟩
      · left
        cases c with
        | node r ds => simp only [rootsOf, List.mem_cons]; exact .inr hr
      · right
        have hm := chainWithTipList_some_mem h (p x) cs _ hc
        cases hcc : chainWithTip h (p x) c with
        | none => exact ⟨chain, succ, by simp [chainWithTipList, hcc, hc], hs⟩
        | some y =>
          have hm' := chainWithTip_some_mem h (p x) c y hcc
          exact absurd rfl (hdis _ hm' _ hm)
end

open Btc.Spec.Fetch in
theorem linkedList_append (h p : α → Nat) (cs ds : List (Tree α)) :
    LinkedList h p (cs ++ ds) ↔ LinkedList h p cs ∧ LinkedList h p ds := by
  induction cs with
  | nil => simp [LinkedList]
  | cons c cs ih => simp [LinkedList, ih, and_assoc]

open Btc.Spec.Fetch in
mutual
/-- attaching a block whose `prev` is the hash it is attached under keeps the tree linked -/
theorem extend_linked (h p : α → Nat) (prev : Nat) (b : α) (hb : p b = prev) :
    ∀ (t t' : Tree α), Linked h p t → extend h prev b t = some t' → Linked h p t'
  | .node r cs, t', hl, he => by
    simp only [extend] at he
    simp only [Linked] at hl
    split at he
    · rename_i hr
      cases he
      simp only [Linked, rootsOf_append, rootsOf, List.mem_append, List.mem_singleton,
        linkedList_append, LinkedList, and_true, List.not_mem_nil, false_imp_iff, implies_true]
      refine ⟨fun x hx => ?_, hl.2⟩
      rcases hx with hx | rfl
      · exact hl.1 x hx
      · rw [hb, hr]
    · split at he
      · rename_i cs' hcs
        cases he
        obtain ⟨h1, h2⟩ := extendList_linked h p prev b hb cs cs' hl.2 hcs
        simp only [Linked]
        exact ⟨fun x hx => hl.1 x (h2 ▸ hx), h1⟩
      · cases he
theorem extendList_linked (h p : α → Nat) (prev : Nat) (b : α) (hb : p b = prev) :
    ∀ (cs cs' : List (Tree α)), LinkedList h p cs → extendList h prev b cs = some cs' →
      LinkedList h p cs' ∧ rootsOf cs' = rootsOf cs
  | [], _, _, he => by simp [extendList] at he
  | c :: cs, cs', hl, he => by
    simp only [extendList] at he
    simp only [LinkedList] at hl
    split at he
    · rename_i c' hc
      cases he
      have := extend_linked h p prev b hb c c' hl.1 hc
      refine ⟨⟨this, hl.2⟩, ?_⟩
      cases c with
      | node r ds =>
        simp only [extend] at hc
        split at hc
        · cases hc; rfl
        · split at hc
          · cases hc; rfl
          · cases hc
    · split at he
      · rename_i cs'' hcs
        cases he
        obtain ⟨h1, h2⟩ := extendList_linked h p prev b hb cs cs'' hl.2 hcs
        refine ⟨⟨hl.1, h1⟩, ?_⟩
        cases c with
        | node r ds => simp only [rootsOf, h2]
      · cases he
end

end TreeFacts

/-! ### More frame lemmas (liveness of processing) -/

theorem feePercentiles_eq {s s' : State} {n : Nat} {p : List Nat}
    (h : s.feePercentiles n = some (s', p)) : s' = { s with feeCache := s'.feeCache } := by
  have hr : ∀ chain tip, feePercentiles.recompute s n chain tip = some (s', p) →
      s' = { s with feeCache := s'.feeCache } := by
    intro chain tip hr
    unfold feePercentiles.recompute at hr
    split at hr
    · cases hr
    · split at hr
      · cases hr; rfl
      · cases hr; rfl
  unfold feePercentiles at h
  dsimp only at h
  split at h
  · split at h
    · cases h; rfl
    · exact hr _ _ h
  · exact hr _ _ h

theorem insertNextHeadersAll_tree (env : Env) (s : State) (raws : List String) (s1 : State)
    (h : insertNextHeadersAll env s raws = some s1) :
    s1.unstable.tree = s.unstable.tree ∧ s1.utxos = s.utxos := by
  induction raws generalizing s with
  | nil => simp [insertNextHeadersAll] at h; rw [h]; exact ⟨rfl, rfl⟩
  | cons raw rest ih =>
    unfold insertNextHeadersAll at h
    split at h
    · cases h; exact ⟨rfl, rfl⟩
    · split at h
      · exact ih _ h
      · split at h
        · cases h; exact ⟨rfl, rfl⟩
        · split at h
          · cases h
          · cases h; exact ⟨rfl, rfl⟩
          · split at h
            · cases h; exact ⟨rfl, rfl⟩
            · rename_i u hu
              have := ih _ h
              unfold Unstable.insertNextHeader at hu
              dsimp only at hu
              split at hu
              · cases hu
              · cases hu
                exact this

theorem insertNextHeaders_tree (env : Env) (s : State) (raws : List String) (s1 : State)
    (h : insertNextHeaders env s raws = some s1) :
    s1.unstable.tree = s.unstable.tree ∧ s1.utxos = s.utxos :=
  insertNextHeadersAll_tree env s _ s1 h

end Btc.Lemmas.Fetch
