import BtcModel.Lemmas.FullCor
import BtcModel.Props.C06

/-!
  Helper lemmas for `Props/C06Chain.lean`: what one operation of `Spec.step2` does to the chain
  from genesis of a block of the tree (`C06.fullChain s G T` = the ghost `G` followed by the root
  path of the block with hash `T`).

  * `step2_chain_back`: an operation that is not a `push` of a block with hash `T` never *creates*
    a chain for `T`: if `T` is in the tree afterwards, it was in the tree before, with the same
    chain from genesis (a `push` of another block adds a leaf elsewhere; an ingestion moves root
    blocks into the ghost and discards forks; everything else leaves tree and ghost alone).
  * `step2_chain_fwd`: an operation that is not an ingestion never *removes or changes* a chain.
  * the same for `FrameRun`s (`frameRun_chain_back`, `frameRun_chain_fwd`) and hence for one
    message (`stepMsg_chain`).
-/
namespace Btc.Lemmas.C06Chain
open Btc Btc.State Btc.Spec Btc.Spec.Full Btc.Lemmas.Reach Btc.Lemmas.Reach2 Btc.Lemmas.FullSys
open Btc.Lemmas.FullCor Btc.Props.C06

/-! ### `fullChain` reads the tree only -/

theorem fullChain_congr {s s' : State} (h : s'.unstable.tree = s.unstable.tree) (G : List Block)
    (T : Nat) : fullChain s' G T = fullChain s G T := by
  unfold fullChain; rw [h]

theorem fullChain_frame {s s' : State} (hf : Frame s s') (G : List Block) (T : Nat) :
    fullChain s' G T = fullChain s G T := fullChain_congr (by rw [hf.unstable]) G T

theorem fullChain_of_root {s : State} {G : List Block} {T : Nat} {chain sib : List CBlock}
    (h : Tree.chainWithTip CBlock.hash T s.unstable.tree = some (chain, sib)) :
    fullChain s G T = some (G ++ chain.map (·.blk)) := by
  unfold fullChain pathBlocks; rw [h]; rfl

theorem fullChain_isSome_iff (s : State) (G : List Block) (T : Nat) :
    (fullChain s G T).isSome = (Tree.chainWithTip CBlock.hash T s.unstable.tree).isSome := by
  unfold fullChain pathBlocks
  cases Tree.chainWithTip CBlock.hash T s.unstable.tree <;> rfl

/-- a block with a chain is a block of the tree -/
theorem mem_of_fullChain {s : State} {G : List Block} {T : Nat} {c : List Block}
    (h : fullChain s G T = some c) : T ∈ s.unstable.tree.blocks.map CBlock.hash := by
  apply Classical.byContradiction
  intro hn
  have := chainWithTip_none_of_not_mem CBlock.hash T s.unstable.tree hn
  unfold fullChain pathBlocks at h
  rw [this] at h
  cases h

theorem fullChain_upgrade (s : State) (c : Option SetConfig) (G : List Block) (T : Nat) :
    fullChain (s.upgrade c) G T = fullChain s G T := by
  unfold fullChain
  rw [(Props.C09.stripped_upgrade' s c).tree]
  rw [pathBlocks_mapT stripC (fun _ => rfl)]

theorem fullChain_setConfig (s : State) (c : SetConfig) (G : List Block) (T : Nat) :
    fullChain (s.setConfig c) G T = fullChain s G T :=
  fullChain_congr (Props.C09.setConfig_frame s c).2.1 G T

/-! ### A sequence of `pop`s -/

/-- the hashes of the tree are pairwise distinct in every state of the extended system -/
theorem inv2_tree_nodup {s : State} {G : List Block} (h2 : Inv2 s G) :
    (s.unstable.tree.blocks.map CBlock.hash).Nodup := by
  rcases h2 with hA | ⟨s0, A, B, hA, hP⟩
  · exact tree_hashes_nodup hA.invU.inv
  · rw [hP.unstable]; exact tree_hashes_nodup hA.invU.inv

/-- **`pop`s keep the chain from genesis of every block that is still in the tree** (the popped
    anchors move from the front of the root path to the end of the ghost) -/
theorem popSteps_chain_back (base : State) {bound : Unstable.BoundFn} {u u' : Unstable} {n : Nat}
    {popped : List Block} (h : PopSteps bound u n popped u') :
    (u.tree.blocks.map CBlock.hash).Nodup → ∀ (G : List Block) (T : Nat) (c : List Block),
      fullChain { base with unstable := u' } (G ++ popped) T = some c →
      fullChain { base with unstable := u } G T = some c := by
  induction h with
  | nil u n => intro _ G T c hc; simpa using hc
  | cons u n b u1 bs u2 hpop hrest ih =>
    intro hnd G T c hc
    have hsub : u1.tree.blocks.Sublist u.tree.blocks :=
      popSteps_sublist bound (PopSteps.cons u n b u1 [] u1 hpop (PopSteps.nil _ _))
    have hnd1 : (u1.tree.blocks.map CBlock.hash).Nodup := hnd.sublist (hsub.map _)
    have h1 := ih hnd1 (G ++ [b]) T c (by simpa using hc)
    exact chain_stable_popBlock bound { base with unstable := u } G (n + 1) u1 b hpop hnd T c h1

/-! ### One operation of `Spec.step2` -/

/-- the operation is a `push` of a block with hash `T` -/
def PushesTip (T : Nat) : Op → Prop
  | .push b => b.hash = T
  | _ => False

/-- the operation is an ingestion -/
def IsIngest : Op → Prop
  | .ingest _ => True
  | _ => False

/-- a `push` (of a block whose hash is not `T`) changes nothing for `T` -/
theorem push_chain_eq {bound : Unstable.BoundFn} {s s' : State} {G G' : List Block} {b : Block}
    (hs : step2 bound (s, G) (.push b) = some (s', G')) (T : Nat) (hT : T ≠ b.hash) :
    fullChain s' G' T = fullChain s G T := by
  simp only [step2, step] at hs
  split at hs
  · rename_i u hu
    simp only [Option.some.injEq, Prod.mk.injEq] at hs
    obtain ⟨rfl, rfl⟩ := hs
    exact chain_stable_insert s G b u hu T hT
  · cases hs

/-- `set_config`, upgrades, queries and announced headers change nothing for any `T` -/
theorem other_chain_eq {bound : Unstable.BoundFn} {s s' : State} {G G' : List Block} {op : Op}
    (hs : step2 bound (s, G) op = some (s', G')) (hp : ∀ b, op ≠ .push b) (hi : ¬ IsIngest op)
    (T : Nat) : fullChain s' G' T = fullChain s G T := by
  cases op with
  | push b => exact absurd rfl (hp b)
  | ingest b => exact absurd trivial hi
  | setConfig c =>
    simp only [step2, step, Option.some.injEq, Prod.mk.injEq] at hs
    obtain ⟨rfl, rfl⟩ := hs
    exact fullChain_setConfig s c G T
  | upgrade c =>
    simp only [step2, step, Option.some.injEq, Prod.mk.injEq] at hs
    obtain ⟨rfl, rfl⟩ := hs
    exact fullChain_upgrade s c G T
  | query =>
    simp only [step2, step, Option.some.injEq, Prod.mk.injEq] at hs
    obtain ⟨rfl, rfl⟩ := hs
    rfl
  | insertNext h =>
    have hs' : step bound (s, G) (.insertNext h) = some (s', G') := hs
    obtain ⟨rfl, _, _, ht⟩ := Props.C03History.other_step (Or.inr ⟨h, rfl⟩) hs'
    exact fullChain_congr ht _ T

/-- **No operation other than a `push` of `T` creates a chain for `T`**: if `T` is in the tree
    after the operation, it was in the tree before, with the same chain from genesis. -/
theorem step2_chain_back (bound : Unstable.BoundFn) {s s' : State} {G G' : List Block} {op : Op}
    (h2 : Inv2 s G) (hs : step2 bound (s, G) op = some (s', G')) (T : Nat)
    (hT : ¬ PushesTip T op) (c : List Block) (hc : fullChain s' G' T = some c) :
    fullChain s G T = some c := by
  cases op with
  | push b =>
    rw [← push_chain_eq hs T (fun e => hT e.symm)]; exact hc
  | ingest b =>
    obtain ⟨rfl, hp⟩ := inv2_ingest_popSteps bound h2 b s' G' hs
    have := popSteps_chain_back s hp (inv2_tree_nodup h2) G T c
      (by rw [fullChain_congr (s := s') (s' := { s with unstable := s'.unstable }) rfl]; exact hc)
    exact this
  | setConfig c' => rw [← other_chain_eq hs (fun _ => nofun) (fun h => h) T]; exact hc
  | upgrade c' => rw [← other_chain_eq hs (fun _ => nofun) (fun h => h) T]; exact hc
  | query => rw [← other_chain_eq hs (fun _ => nofun) (fun h => h) T]; exact hc
  | insertNext h => rw [← other_chain_eq hs (fun _ => nofun) (fun h => h) T]; exact hc

/-- a block of the tree cannot be pushed again (`PushDomain.fresh`) -/
theorem not_pushesTip_of_mem {s : State} {G : List Block} {op : Op} (hd : Domain2 (s, G) op)
    {T : Nat} (hm : T ∈ s.unstable.tree.blocks.map CBlock.hash) : ¬ PushesTip T op := by
  cases op with
  | push b =>
    intro e
    have e' : b.hash = T := e
    apply hd.2.fresh
    rw [List.map_append, List.mem_append]
    right
    rw [e', List.map_map]
    exact hm
  | _ => exact fun h => h

/-- **No operation other than an ingestion removes or changes a chain**: in its domain (the hash
    of a pushed block is new), if `T` is in the tree before the operation it is in the tree
    afterwards, with the same chain from genesis. -/
theorem step2_chain_fwd (bound : Unstable.BoundFn) {s s' : State} {G G' : List Block} {op : Op}
    (hd : Domain2 (s, G) op) (hs : step2 bound (s, G) op = some (s', G')) (hi : ¬ IsIngest op)
    (T : Nat) (c : List Block) (hc : fullChain s G T = some c) : fullChain s' G' T = some c := by
  cases op with
  | push b =>
    have hne : T ≠ b.hash := fun e => not_pushesTip_of_mem hd (mem_of_fullChain hc) e.symm
    rw [push_chain_eq hs T hne]; exact hc
  | ingest b => exact absurd trivial hi
  | setConfig c' => rw [other_chain_eq hs (fun _ => nofun) (fun h => h) T]; exact hc
  | upgrade c' => rw [other_chain_eq hs (fun _ => nofun) (fun h => h) T]; exact hc
  | query => rw [other_chain_eq hs (fun _ => nofun) (fun h => h) T]; exact hc
  | insertNext h => rw [other_chain_eq hs (fun _ => nofun) (fun h => h) T]; exact hc

/-- **One operation, `T` in the tree before and after: same chain from genesis.** -/
theorem step2_chain_same (bound : Unstable.BoundFn) {s s' : State} {G G' : List Block} {op : Op}
    (h2 : Inv2 s G) (hd : Domain2 (s, G) op) (hs : step2 bound (s, G) op = some (s', G'))
    (T : Nat) (c c' : List Block) (hc : fullChain s G T = some c)
    (hc' : fullChain s' G' T = some c') : c = c' := by
  have := step2_chain_back bound h2 hs T (not_pushesTip_of_mem hd (mem_of_fullChain hc)) c' hc'
  rw [hc] at this
  exact Option.some.inj this

/-! ### Runs with frame changes -/

/-- no operation of the list pushes a block with hash `T` -/
def NoPushOf (T : Nat) (ops : List Op) : Prop := ∀ o ∈ ops, ¬ PushesTip T o

/-- no operation of the list is an ingestion -/
def NoIngest (ops : List Op) : Prop := ∀ o ∈ ops, ¬ IsIngest o

theorem frameRun_chain_back {bound : Unstable.BoundFn} {sg sg' : State × List Block}
    {ops : List Op} (hr : FrameRun bound sg ops sg') (T : Nat) :
    Inv2 sg.1 sg.2 → NoPushOf T ops → ∀ c, fullChain sg'.1 sg'.2 T = some c →
      fullChain sg.1 sg.2 T = some c := by
  induction hr with
  | nil sg => intro _ _ c hc; exact hc
  | frame sg s1 ops sg2 hf _ ih =>
    intro h2 hn c hc
    rw [← fullChain_frame hf]
    exact ih (inv2_frame hf h2) hn c hc
  | op sg o sg1 ops sg2 hd hs _ ih =>
    intro h2 hn c hc
    have h21 := step2_preserves_inv2 bound sg.1 sg.2 o sg1.1 sg1.2 h2 hd hs
    have h1 := ih h21 (fun o' ho' => hn o' (List.mem_cons_of_mem _ ho')) c hc
    exact step2_chain_back bound h2 hs T (hn o List.mem_cons_self) c h1

theorem frameRun_chain_fwd {bound : Unstable.BoundFn} {sg sg' : State × List Block}
    {ops : List Op} (hr : FrameRun bound sg ops sg') (T : Nat) :
    NoIngest ops → ∀ c, fullChain sg.1 sg.2 T = some c → fullChain sg'.1 sg'.2 T = some c := by
  induction hr with
  | nil sg => intro _ c hc; exact hc
  | frame sg s1 ops sg2 hf _ ih =>
    intro hn c hc
    exact ih hn c (by rw [fullChain_frame hf]; exact hc)
  | op sg o sg1 ops sg2 hd hs _ ih =>
    intro hn c hc
    exact ih (fun o' ho' => hn o' (List.mem_cons_of_mem _ ho')) c
      (step2_chain_fwd bound hd hs (hn o List.mem_cons_self) T c hc)

/-- a run of `Spec.runOps2` whose operations are in their domains is a `FrameRun` -/
theorem frameRun_of_runOps2 (bound : Unstable.BoundFn) : ∀ (ops : List Op) (sg sg' : State × List Block),
    DomainAll2 bound sg ops → runOps2 bound sg ops = some sg' → FrameRun bound sg ops sg'
  | [], sg, sg', _, h => by
    simp only [runOps2, Option.some.injEq] at h
    subst h
    exact FrameRun.nil _
  | o :: ops, sg, sg', hd, h => by
    simp only [runOps2] at h
    cases hs : step2 bound sg o with
    | none => rw [hs] at h; cases h
    | some sg1 =>
      rw [hs] at h
      exact FrameRun.op sg o sg1 ops sg' hd.1 hs
        (frameRun_of_runOps2 bound ops sg1 sg' (hd.2 sg1 hs) h)

/-! ### One message -/

/-- the operations of one message: a single ingestion, or no ingestion at all -/
theorem msgOps_shape (env : Env) (s : State) (m : Msg) :
    (∃ b, msgOps env s m = [.ingest b]) ∨ NoIngest (msgOps env s m) := by
  cases m with
  | heartbeat budget =>
    simp only [msgOps]
    cases heartbeatStart env s budget with
    | ingested s' p => exact Or.inl ⟨budget, rfl⟩
    | trap => exact Or.inr (fun o ho => by cases ho)
    | awaiting s' r => exact Or.inr (fun o ho => by cases ho)
    | processed s' =>
      right
      simp only
      unfold finishOps
      split
      · rename_i r _
        unfold processOps
        intro o ho
        simp only [List.mem_append, List.mem_map] at ho
        rcases ho with ⟨b, _, rfl⟩ | ho
        · exact fun h => h
        · split at ho
          · obtain ⟨h, _, rfl⟩ := List.mem_map.mp ho
            exact fun h => h
          · cases ho
      · exact fun o ho => by cases ho
  | reply r => exact Or.inr (fun o ho => by cases ho)
  | upgrade cfg =>
    right
    intro o ho
    simp only [msgOps, List.mem_singleton] at ho
    subst ho
    exact fun h => h
  | setConfig c =>
    right
    intro o ho
    simp only [msgOps, List.mem_singleton] at ho
    subst ho
    exact fun h => h
  | call c => exact Or.inr (fun o ho => by cases ho)

/-- **One message, `T` in the tree before and after: same chain from genesis** -/
theorem stepMsg_chain (env : Env) (c : Cfg) (m : Msg) (ht : Trusted env c m)
    (h2 : Inv2 c.1.st c.2) (T : Nat) (ch ch' : List Block)
    (hc : fullChain c.1.st c.2 T = some ch)
    (hc' : fullChain (stepMsg env c m).1.st (stepMsg env c m).2 T = some ch') : ch = ch' := by
  have hsim := stepMsg_sim env c m ht
  rcases msgOps_shape env c.1.st m with ⟨b, hb⟩ | hn
  · have := frameRun_chain_back hsim T h2 (by
      rw [hb]
      intro o ho
      simp only [List.mem_singleton] at ho
      subst ho
      exact fun h => h) ch' hc'
    rw [hc] at this
    exact Option.some.inj this
  · have := frameRun_chain_fwd hsim T hn ch hc
    rw [hc'] at this
    exact (Option.some.inj this).symm

/-- a message that does not extend the ghost keeps every block of the tree, with its chain -/
theorem stepMsg_chain_ghost_fixed (env : Env) (c : Cfg) (m : Msg) (ht : Trusted env c m)
    (h2 : Inv2 c.1.st c.2) (hg : (stepMsg env c m).2 = c.2) (T : Nat) (ch : List Block)
    (hc : fullChain c.1.st c.2 T = some ch) :
    fullChain (stepMsg env c m).1.st (stepMsg env c m).2 T = some ch := by
  have hsim := stepMsg_sim env c m ht
  have hsub := frameRun_hashes_sublist hsim h2 hg
  have hm : T ∈ (stepMsg env c m).1.st.unstable.tree.blocks.map CBlock.hash :=
    hsub.subset (mem_of_fullChain hc)
  have hsome := TreeExtend.chainWithTip_isSome_of_mem CBlock.hash T _ hm
  rw [← fullChain_isSome_iff _ (stepMsg env c m).2 T] at hsome
  obtain ⟨ch', hch'⟩ := Option.isSome_iff_exists.mp hsome
  rw [hch', stepMsg_chain env c m ht h2 T ch ch' hc hch']

/-! ### The ORDER of the complete answer is a function of the ghost and the chain

`resultList s G a chain` (what `AddressUtxoSet::into_iter` yields) reads the state in two places:
the removed set is resolved in the history `G ++ all tree blocks`, and the stable part is a range
scan of the state's address index.  Both are determined by the ghost and the blocks of the chain:
an input of a valid chain spends an output of that chain (so it resolves identically in every
consistent history containing the chain), and two index lists describing the same ledger are
permutations of each other whose keys are pairwise distinct (range hypotheses), so their sorted
scans are equal. -/

/-- every input of a transaction-valid chain spends an output of a transaction of the chain -/
theorem ins_created (bs : List Block) (hv : TxValid bs) (o : OutPoint) (ho : o ∈ insB bs) :
    ∃ tx ∈ txsOf bs, tx.txid = o.txid := by
  have hok := FlatOK_of_TxValidFrom [] 0 bs hv
  rcases ins_mem_of_FlatOK (flat 0 bs) [] hok o (by rw [insF_flat]; exact ho) with h | h
  · simp at h
  · obtain ⟨e, he, rfl⟩ := List.mem_map.mp h
    have := createdF_txid _ e he
    rw [flat_txids] at this
    obtain ⟨tx, htx, e'⟩ := List.mem_map.mp this
    exact ⟨tx, htx, e'⟩

/-- an input of a valid chain resolves to the same output in every consistent history that
    contains the chain -/
theorem outAt_indep (chain hist hist' : List Block) (hv : TxValid chain)
    (hsub : ∀ b ∈ chain, b ∈ hist) (hsub' : ∀ b ∈ chain, b ∈ hist') (hc : TxidsConsistent hist)
    (hc' : TxidsConsistent hist') (o : OutPoint) (ho : o ∈ insB chain) :
    outAt hist o = outAt hist' o := by
  obtain ⟨tx, htx, he⟩ := ins_created chain hv o ho
  obtain ⟨b, hb, hbt⟩ := (mem_txsOf _ _).mp htx
  have h1 : tx ∈ txsOf hist := (mem_txsOf _ _).mpr ⟨b, hsub b hb, hbt⟩
  have h2 : tx ∈ txsOf hist' := (mem_txsOf _ _).mpr ⟨b, hsub' b hb, hbt⟩
  have eo : o = ⟨tx.txid, o.vout⟩ := by cases o; simp_all
  rw [eo, outAt_of_mem hist hc tx h1, outAt_of_mem hist' hc' tx h2]

/-- the removed set of the blocks `p` on top of `G` does not depend on the history it is
    resolved in -/
theorem removedAll_indep (G p hist hist' : List Block) (hv : TxValid (G ++ p))
    (hsub : ∀ b ∈ G ++ p, b ∈ hist) (hsub' : ∀ b ∈ G ++ p, b ∈ hist') (hc : TxidsConsistent hist)
    (hc' : TxidsConsistent hist') (a : Addr) : removedAll hist a p = removedAll hist' a p := by
  unfold removedAll removedSpec
  apply flatMap_congr'
  intro b hb
  apply flatMap_congr'
  intro tx htx
  apply List.filter_congr
  intro o ho
  have hin : o ∈ insB (G ++ p) := by
    rw [insB_append]
    apply List.mem_append_right
    unfold insB
    exact List.mem_flatMap.mpr ⟨tx, (mem_txsOf _ _).mpr ⟨b, hb, htx⟩, ho⟩
  rw [outAt_indep (G ++ p) hist hist' hv hsub hsub' hc hc' o hin]

/-- two stable sets holding the same ledger scan the index of an address in the same order -/
theorem scanEntries_eq (u u' : UtxoSet) (l : LedgerMap) (hs : StableIs u l) (hs' : StableIs u' l)
    (hr : LedgerRange l) (a : Addr) : scanEntries u a = scanEntries u' a := by
  apply List.Perm.eq_of_pairwise (le := fun (e1 e2 : IdxEntry) => lexLt e2.key e1.key = false)
  · intro e1 e2 h1 h2 h12 h21
    have m1 := scanEntries_mem u a e1 h1
    have m2 := scanEntries_mem u' a e2 h2
    exact key_inj e1 e2 (by rw [m1.2, m2.2]) (index_inRange u l hs hr e1 m1.1)
      (index_inRange u' l hs' hr e2 m2.1) (lexLt_total _ _ h21 h12)
  · exact scanEntries_sorted u a
  · exact scanEntries_sorted u' a
  · unfold scanEntries UtxoSet.rangeScan
    have hperm : u.index.Perm u'.index :=
      (List.perm_ext_iff_of_nodup hs.indexNodup hs'.indexNodup).mpr
        (fun e => by rw [hs.indexEq, hs'.indexEq])
    refine ((sortBy_perm _ _).filter _).trans ?_
    refine List.Perm.trans ?_ ((sortBy_perm _ _).filter _).symm
    exact (hperm.filter _).filter _

/-- … and yield the same stable part -/
theorem stablePart_eq (s s' : State) (l : LedgerMap) (hs : StableIs s.utxos l)
    (hs' : StableIs s'.utxos l) (hr : LedgerRange l) (a : Addr) (R : List OutPoint) :
    stablePart s a R = stablePart s' a R := by
  rw [stablePart_eq_entries s a R hs.notIngesting, stablePart_eq_entries s' a R hs'.notIngesting,
    scanEntries_eq s.utxos s'.utxos l hs hs' hr a]
  apply filterMap_congr'
  intro e _
  rw [getUtxo_stable s.utxos l hs, getUtxo_stable s'.utxos l hs']

/-- **Same ghost, same blocks on the root path: the same complete answer, as a list.**  For two
    states satisfying the invariant for the same ghost `G` (which may hold different trees,
    different caches and differently ordered index lists), the complete ordered answers for root
    paths carrying the same blocks are equal. -/
theorem resultList_eq {s s' : State} {G : List Block} (hinv : Inv s G) (hinv' : Inv s' G)
    {chain chain' : List CBlock} (hp : PathCtx s G chain) (hp' : PathCtx s' G chain')
    (hsame : chain'.map (·.blk) = chain.map (·.blk)) (hH : G.length ≤ 2 ^ 32) (hR : TxRange G)
    (a : Addr) : resultList s' G a chain' = resultList s G a chain := by
  have hG := hp.validG
  have hrange := ledgerRange_of_txRange G hG.1 hG.2 hH hR
  unfold resultList
  simp only [hsame]
  have hRem : removedAll (histOf s' G) a (chain.map (·.blk)) =
      removedAll (histOf s G) a (chain.map (·.blk)) :=
    removedAll_indep G _ (histOf s' G) (histOf s G) hp.valid (by rw [← hsame]; exact hp'.sub_hist)
      hp.sub_hist (hist_consistent hinv') (hist_consistent hinv) a
  rw [hRem, stablePart_eq s' s (ledger G) hinv'.stable hinv.stable hrange a]

end Btc.Lemmas.C06Chain
