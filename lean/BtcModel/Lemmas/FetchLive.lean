import BtcModel.Props.C13
import BtcModel.Props.C08

/-!
Helper definitions and lemmas for the LIVENESS half of C13 (`Props/C13Live.lean`).

* the ingestion part of the heartbeat does not read the fetch state (`ingestStable_withSy`), so
  replies / rejects / guard changes never alter what ingestion will do;
* `settles env b n s`: `n` heartbeats (environment `env`, budget `b`) are spent on ingestion only
  (each pauses or finishes some stable block), after which ingestion has nothing to do;
  `settled env b n s` is the state reached;
* `effective env s b`: the heartbeat gets past the ingestion stage and does not trap;
* `stage`: coarse phase of the protocol (2 = request outstanding, 1 = complete response stored,
  0 = ready to send a request); it never increases on a message that sends no request.
-/
namespace Btc.Lemmas.FetchLive
open Btc Btc.State Btc.Spec.Fetch Btc.Lemmas.Fetch Btc.Props.C13

/-! ### Ingestion does not read the fetch state -/

/-- replace the fetch state -/
def withSy (sy : SyncingState) (s : State) : State := { s with syncing := sy }

def resWithSy (sy : SyncingState) : IngestResult → IngestResult
  | .paused s => .paused (withSy sy s)
  | .done s w => .done (withSy sy s) w
  | .trap m => .trap m

theorem popBlock_withSy (bound : Unstable.BoundFn) (sy : SyncingState) (s : State) (h : Nat) :
    popBlock bound (withSy sy s) h = (popBlock bound s h).map (withSy sy) := by
  unfold popBlock
  show (match Unstable.pop bound s.unstable s.utxos.nextHeight with
        | .ok u b => if b.hash = h then some { withSy sy s with unstable := u } else none
        | _ => none) = _
  cases Unstable.pop bound s.unstable s.utxos.nextHeight with
  | ok u b => dsimp only; split <;> rfl
  | none_ => rfl
  | trap m => rfl

theorem ingestNewStable_withSy (bound : Unstable.BoundFn) (sy : SyncingState) :
    ∀ (fuel : Nat) (s : State) (b : Nat) (w : Bool),
      ingestNewStable bound fuel (withSy sy s) b w = resWithSy sy (ingestNewStable bound fuel s b w)
  | 0, s, b, w => rfl
  | fuel + 1, s, b, w => by
    unfold ingestNewStable
    show (match Unstable.peek bound s.unstable with
          | none => IngestResult.done (withSy sy s) w
          | some anchor =>
            match ({ s with headers := s.headers.insert anchor.blk s.utxos.nextHeight } : State).utxos.ingestBlock
                anchor.blk b with
            | .trap m => .trap m
            | .paused u => .paused (withSy sy { s with headers := s.headers.insert anchor.blk s.utxos.nextHeight, utxos := u })
            | .done u budget' =>
              match popBlock bound (withSy sy { s with headers := s.headers.insert anchor.blk s.utxos.nextHeight, utxos := u })
                  anchor.blk.hash with
              | none => .trap "popped block differs from ingested block"
              | some s2 => ingestNewStable bound fuel s2 budget' true) = _
    cases Unstable.peek bound s.unstable with
    | none => rfl
    | some anchor =>
      dsimp only
      cases s.utxos.ingestBlock anchor.blk b with
      | trap m => rfl
      | paused u => rfl
      | done u budget' =>
        dsimp only
        rw [popBlock_withSy]
        cases popBlock bound { s with headers := s.headers.insert anchor.blk s.utxos.nextHeight, utxos := u }
            anchor.blk.hash with
        | none => rfl
        | some s2 => exact ingestNewStable_withSy bound sy fuel s2 budget' true

theorem ingestStable_withSy (bound : Unstable.BoundFn) (sy : SyncingState) (s : State) (b : Nat) :
    ingestStable bound (withSy sy s) b = resWithSy sy (ingestStable bound s b) := by
  unfold ingestStable
  show (match s.utxos.ingestContinue b with
        | none => ingestNewStable bound (s.unstable.tree.blocksCount + 1) (withSy sy s) b false
        | some (.trap m) => .trap m
        | some (.paused u) => .paused (withSy sy { s with utxos := u })
        | some (.done u budget') =>
          match popBlock bound (withSy sy { s with utxos := u })
              (match s.utxos.ingesting with | some ing => ing.block.hash | none => 0) with
          | none => .trap "popped block differs from ingested block"
          | some s2 => ingestNewStable bound (s.unstable.tree.blocksCount + 1) s2 budget' true) = _
  cases s.utxos.ingestContinue b with
  | none => exact ingestNewStable_withSy bound sy _ s b false
  | some r =>
    cases r with
    | trap m => rfl
    | paused u => rfl
    | done u budget' =>
      dsimp only
      rw [popBlock_withSy]
      cases popBlock bound { s with utxos := u }
          (match s.utxos.ingesting with | some ing => ing.block.hash | none => 0) with
      | none => rfl
      | some s2 => exact ingestNewStable_withSy bound sy _ s2 budget' true


/-! ### Ingestion rounds: `settles`, `settled` -/

/-- ingestion has nothing to do: `ingest_stable_blocks_into_utxoset` returns `false` -/
def quiet (env : Env) (b : Nat) (s : State) : Bool :=
  match s.ingestStable env.bound b with
  | .done _ false => true
  | _ => false

theorem quiet_iff (env : Env) (b : Nat) (s : State) :
    quiet env b s = true ↔ s.ingestStable env.bound b = .done s false := by
  unfold quiet
  constructor
  · intro h
    split at h
    · rename_i s' hs
      rw [hs, ingestStable_done_false hs]
    · cases h
  · intro h; rw [h]

/-- the state after one heartbeat whose ingestion round pauses or finishes some block -/
def ingestOnce (env : Env) (b : Nat) (s : State) : State :=
  match s.ingestStable env.bound b with
  | .paused s' => s'
  | .done s' true => s'
  | _ => s

/-- exactly `n` heartbeats (environment `env`, budget `b`) are spent on ingestion (each of them
    pauses inside a block or finishes the stable blocks; none traps); after them ingestion has
    nothing to do -/
def settles (env : Env) (b : Nat) : Nat → State → Bool
  | 0, s => quiet env b s
  | n + 1, s =>
    match s.ingestStable env.bound b with
    | .paused s' => settles env b n s'
    | .done s' true => settles env b n s'
    | _ => false

/-- the state after `n` ingestion rounds -/
def settled (env : Env) (b : Nat) : Nat → State → State
  | 0, s => s
  | n + 1, s => settled env b n (ingestOnce env b s)

theorem quiet_withSy (env : Env) (b : Nat) (sy : SyncingState) (s : State) :
    quiet env b (withSy sy s) = quiet env b s := by
  unfold quiet
  rw [ingestStable_withSy]
  cases s.ingestStable env.bound b with
  | paused s' => rfl
  | trap m => rfl
  | done s' w => cases w <;> rfl

theorem ingestOnce_withSy (env : Env) (b : Nat) (sy : SyncingState) (s : State) :
    ingestOnce env b (withSy sy s) = withSy sy (ingestOnce env b s) := by
  unfold ingestOnce
  rw [ingestStable_withSy]
  cases s.ingestStable env.bound b with
  | paused s' => rfl
  | trap m => rfl
  | done s' w => cases w <;> rfl

theorem settles_withSy (env : Env) (b : Nat) (sy : SyncingState) :
    ∀ (n : Nat) (s : State), settles env b n (withSy sy s) = settles env b n s
  | 0, s => quiet_withSy env b sy s
  | n + 1, s => by
    unfold settles
    rw [ingestStable_withSy]
    cases s.ingestStable env.bound b with
    | paused s' => exact settles_withSy env b sy n s'
    | trap m => rfl
    | done s' w =>
      cases w with
      | true => exact settles_withSy env b sy n s'
      | false => rfl

theorem settled_withSy (env : Env) (b : Nat) (sy : SyncingState) :
    ∀ (n : Nat) (s : State), settled env b n (withSy sy s) = withSy sy (settled env b n s)
  | 0, s => rfl
  | n + 1, s => by
    unfold settled
    rw [ingestOnce_withSy]
    exact settled_withSy env b sy n _

theorem ingestOnce_syncing (env : Env) (b : Nat) (s : State) : (ingestOnce env b s).syncing = s.syncing := by
  have := ingestStable_syncing env.bound s b
  unfold ingestOnce
  cases h : s.ingestStable env.bound b with
  | paused s' => rw [h] at this; exact this
  | trap m => rfl
  | done s' w =>
    rw [h] at this
    cases w with
    | true => exact this
    | false => rfl

/-- ingestion rounds never touch the fetch state -/
theorem settled_syncing (env : Env) (b : Nat) : ∀ (n : Nat) (s : State),
    (settled env b n s).syncing = s.syncing
  | 0, s => rfl
  | n + 1, s => by
    unfold settled
    rw [settled_syncing env b n, ingestOnce_syncing]

theorem settles_quiet (env : Env) (b : Nat) : ∀ (n : Nat) (s : State),
    settles env b n s = true → quiet env b (settled env b n s) = true
  | 0, s, h => h
  | n + 1, s, h => by
    unfold settles at h
    unfold settled ingestOnce
    cases hi : s.ingestStable env.bound b with
    | paused s' => rw [hi] at h; exact settles_quiet env b n s' h
    | trap m => rw [hi] at h; cases h
    | done s' w =>
      rw [hi] at h
      cases w with
      | true => exact settles_quiet env b n s' h
      | false => cases h

/-- `n` heartbeats in environment `env` with budget `b` -/
def hbs (env : Env) (b : Nat) (n : Nat) : List (Env × Action) := List.replicate n (env, Action.heartbeat b)

theorem hbs_length (env : Env) (b n : Nat) : (hbs env b n).length = n := by simp [hbs]

theorem hbs_succ (env : Env) (b n : Nat) : hbs env b (n + 1) = (env, Action.heartbeat b) :: hbs env b n := rfl

theorem hbs_succ' (env : Env) (b n : Nat) : hbs env b (n + 1) = hbs env b n ++ [(env, Action.heartbeat b)] := by
  simp [hbs, List.replicate_succ']

theorem hbs_noise (env : Env) (b n : Nat) : Noise (hbs env b n) := by
  intro ea h
  rw [hbs, List.mem_replicate] at h
  rw [h.2]; trivial

/-- a heartbeat whose ingestion round does something only changes the canister state as
    `ingestOnce` says; it sends nothing -/
theorem step_ingesting (env : Env) (b : Nat) (s : State) (p : Option Request)
    (h : (∃ s', s.ingestStable env.bound b = .paused s') ∨ (∃ s', s.ingestStable env.bound b = .done s' true)) :
    step env ⟨s, p⟩ (.heartbeat b) = ⟨ingestOnce env b s, p⟩ ∧ issued env ⟨s, p⟩ (.heartbeat b) = none := by
  simp only [step, issued, heartbeatStart_eq, ingestOnce]
  rcases h with ⟨s', h⟩ | ⟨s', h⟩ <;> rw [h] <;> exact ⟨rfl, rfl⟩

/-- the ingestion rounds as a schedule: only the canister state changes, nothing is sent -/
theorem run_settle (env : Env) (b : Nat) : ∀ (n : Nat) (s : State) (p : Option Request),
    settles env b n s = true →
    run ⟨s, p⟩ (hbs env b n) = ⟨settled env b n s, p⟩ ∧ trace ⟨s, p⟩ (hbs env b n) = []
  | 0, s, p, _ => ⟨rfl, rfl⟩
  | n + 1, s, p, h => by
    unfold settles at h
    have key : ∀ s', settles env b n s' = true →
        ((∃ s', s.ingestStable env.bound b = .paused s') ∨ (∃ s', s.ingestStable env.bound b = .done s' true)) →
        ingestOnce env b s = s' →
        run ⟨s, p⟩ (hbs env b (n + 1)) = ⟨settled env b (n + 1) s, p⟩ ∧ trace ⟨s, p⟩ (hbs env b (n + 1)) = [] := by
      intro s' hs' hcase he
      obtain ⟨h1, h2⟩ := step_ingesting env b s p hcase
      obtain ⟨h3, h4⟩ := run_settle env b n s' p hs'
      simp [hbs_succ, run, trace, h1, h2, he, h3, h4, settled]
    cases hi : s.ingestStable env.bound b with
    | paused s' =>
      rw [hi] at h
      exact key s' h (.inl ⟨s', hi⟩) (by simp [ingestOnce, hi])
    | trap m => rw [hi] at h; cases h
    | done s' w =>
      rw [hi] at h
      cases w with
      | true => exact key s' h (.inr ⟨s', hi⟩) (by simp [ingestOnce, hi])
      | false => cases h

/-! ### Effective heartbeats -/

/-- the heartbeat gets past the ingestion stage (ingestion had nothing to do) and does not trap:
    it either sends a request or runs `maybe_process_response` to its end -/
def effective (env : Env) (s : State) (b : Nat) : Bool :=
  match heartbeatStart env s b with
  | .awaiting _ _ => true
  | .processed _ => true
  | _ => false

theorem effective_quiet {env : Env} {s : State} {b : Nat} (h : effective env s b = true) :
    s.ingestStable env.bound b = .done s false := by
  have hs := heartbeatStart_spec env s b
  unfold effective at h
  cases hh : heartbeatStart env s b with
  | trap => rw [hh] at h; cases h
  | ingested a c => rw [hh] at h; cases h
  | awaiting s' r => rw [hh] at hs; exact hs.1
  | processed s' => rw [hh] at hs; exact hs.1

/-- ready to send: nothing outstanding, syncing enabled, ingestion quiet, no complete response
    stored. The heartbeat sends the request the stored response calls for. -/
theorem hb_ready {env : Env} {sys : Sys} {b : Nat} (inv : Inv sys) (hp : sys.pending = none)
    (hs : sys.st.syncing.syncing = true) (hq : sys.st.ingestStable env.bound b = .done sys.st false)
    (hc : ∀ r, sys.st.syncing.response ≠ some (.complete r)) :
    ∃ req, issued env sys (.heartbeat b) = some req ∧
      step env sys (.heartbeat b) =
        ⟨{ sys.st with syncing := { sys.st.syncing with isFetching := true } }, some req⟩ ∧
      match sys.st.syncing.response with
      | none => ∃ anchor rest, req = .initial anchor rest ∧
          anchor :: rest = sys.st.unstable.tree.blocks.map CBlock.hash
      | some (.partial_ _ k) => req = .followUp k
      | some (.complete _) => False := by
  have hf : sys.st.syncing.isFetching = false := by
    cases hfe : sys.st.syncing.isFetching with
    | false => rfl
    | true => have := inv.singleFlight.mpr hfe; rw [hp] at this; cases this
  obtain ⟨req, hreq⟩ := request_sent hq hs hf inv.wf hc
  obtain ⟨_, _, _, _, hstep⟩ := issued_some hreq
  exact ⟨req, hreq, hstep, (request_selection hreq).2.2.2⟩

/-- for the heartbeats that are to send a request, "effective" is just "ingestion is quiet": on a
    reachable idle state with syncing on and no complete response stored, nothing else can stop
    the heartbeat (the assertion of `maybe_get_successors_request` holds, see
    `successorsRequest_never_traps`) -/
theorem effective_of_ready {env : Env} {sys : Sys} {b : Nat} (inv : Inv sys) (hp : sys.pending = none)
    (hs : sys.st.syncing.syncing = true) (hq : quiet env b sys.st = true)
    (hc : ∀ r, sys.st.syncing.response ≠ some (.complete r)) : effective env sys.st b = true := by
  obtain ⟨req, hi, _⟩ := hb_ready inv hp hs ((quiet_iff env b _).mp hq) hc
  simp only [issued] at hi
  unfold effective
  split at hi
  · rename_i s' r hh; rw [hh]
  · cases hi

/-- the state in which a heartbeat that runs `maybe_process_response` to its end leaves the canister -/
def afterProcess (env : Env) (b : Nat) (s : State) : State :=
  match heartbeatStart env s b with
  | .processed s' => s'
  | _ => s

/-- a complete response is stored and the heartbeat is effective: it is consumed, nothing is sent -/
theorem hb_process {env : Env} {sys : Sys} {b : Nat} {r : CompleteResp}
    (he : effective env sys.st b = true) (hr : sys.st.syncing.response = some (.complete r)) :
    issued env sys (.heartbeat b) = none ∧
    (step env sys (.heartbeat b)).st = afterProcess env b sys.st ∧
    (step env sys (.heartbeat b)).pending = sys.pending ∧
    (step env sys (.heartbeat b)).st.syncing.response = none ∧
    (step env sys (.heartbeat b)).st.syncing.syncing = sys.st.syncing.syncing ∧
    (step env sys (.heartbeat b)).st.syncing.isFetching = sys.st.syncing.isFetching ∧
    (step env sys (.heartbeat b)).st.syncing.rejects = sys.st.syncing.rejects := by
  have hs := heartbeatStart_spec env sys.st b
  unfold effective at he
  simp only [issued, step, afterProcess]
  cases hh : heartbeatStart env sys.st b with
  | trap => rw [hh] at he; cases he
  | ingested a c => rw [hh] at he; cases he
  | awaiting s' req =>
    rw [hh] at hs
    obtain ⟨_, hd, _⟩ := hs
    obtain ⟨_, _, hreq⟩ := fetchDecision_some_some hd
    rcases successorsRequest_some hreq with ⟨hn, _⟩ | ⟨p, k, hpk, _⟩
    · rw [hn] at hr; cases hr
    · rw [hpk] at hr; cases hr
  | processed s' =>
    rw [hh] at hs
    obtain ⟨_, _, h1, h2, h3, s2, hp, hsy⟩ := hs
    refine ⟨rfl, rfl, rfl, ?_, h1, h2, h3⟩
    dsimp only
    rw [hsy]
    rcases processResponse_response hp with ⟨_, _, hn⟩ | ⟨hne, _⟩
    · exact hn
    · exact absurd hr (hne r)

/-! ### The coarse phase -/

/-- 2 = a request is outstanding; 1 = idle with a complete response stored (to be processed);
    0 = idle, ready to send (nothing stored, or a partial response waiting for its next page) -/
def stage (sys : Sys) : Nat :=
  match sys.pending, sys.st.syncing.response with
  | some _, _ => 2
  | none, some (.complete _) => 1
  | none, _ => 0

theorem stage_le_two (sys : Sys) : stage sys ≤ 2 := by
  unfold stage; split <;> omega

theorem stage_idle {sys : Sys} (h : sys.pending = none) : stage sys ≤ 1 := by
  unfold stage; rw [h]; split <;> first | omega | simp_all

theorem pending_of_stage {sys : Sys} (h : stage sys ≤ 1) : sys.pending = none := by
  unfold stage at h
  split at h <;> first | omega | assumption

theorem stage_zero {sys : Sys} (h : stage sys = 0) :
    sys.pending = none ∧ ∀ r, sys.st.syncing.response ≠ some (.complete r) := by
  unfold stage at h
  split at h
  · omega
  · omega
  · rename_i hp hn
    exact ⟨hp, fun r hr => hn r hr⟩

theorem stage_of_idle_none {sys : Sys} (hp : sys.pending = none) (hr : sys.st.syncing.response = none) :
    stage sys = 0 := by
  unfold stage; rw [hp, hr]

/-- any reply ends the wait (a reply nobody waits for is ignored) -/
theorem stage_reply (env : Env) (sys : Sys) (r : Reply) : stage (step env sys (.reply r)) ≤ 1 := by
  apply stage_idle
  simp only [step]
  cases hp : sys.pending with
  | none => exact hp
  | some req => dsimp only; split <;> rfl

/-- a heartbeat that sends nothing leaves `pending` alone -/
theorem hb_pending {env : Env} {sys : Sys} {b : Nat} (hi : issued env sys (.heartbeat b) = none) :
    (step env sys (.heartbeat b)).pending = sys.pending := by
  simp only [issued] at hi
  simp only [step]
  split <;> first | rfl | simp_all

/-- the phase never goes up on a message that sends no request -/
theorem stage_step_le (env : Env) {sys : Sys} (a : Action) (hi : issued env sys a = none) :
    stage (step env sys a) ≤ stage sys := by
  cases a with
  | query => exact Nat.le_refl _
  | setConfig c =>
    have := setConfig_isFetching sys.st c
    simp only [stage, step, this.2]
    exact Nat.le_refl _
  | upgrade c =>
    have := upgrade_fetch sys.st c
    simp only [stage, step, this.2]
    exact Nat.zero_le _
  | reply r =>
    cases hp : sys.pending with
    | none =>
      have : step env sys (.reply r) = sys := by simp [step, hp]
      rw [this]; exact Nat.le_refl _
    | some req =>
      have h1 := stage_reply env sys r
      have : stage sys = 2 := by simp [stage, hp]
      omega
  | heartbeat b =>
    have hpend := hb_pending hi
    cases hp : sys.pending with
    | some req =>
      have h2 : stage sys = 2 := by simp [stage, hp]
      have := stage_le_two (step env sys (.heartbeat b))
      omega
    | none =>
      rw [hp] at hpend
      rcases heartbeat_response env sys b with he | he
      · simp only [stage, hpend, hp, he]; exact Nat.le_refl _
      · simp only [stage, hpend, he]; exact Nat.zero_le _

theorem trace_cons_nil {env : Env} {sys : Sys} {a : Action} {rest : List (Env × Action)}
    (h : trace sys ((env, a) :: rest) = []) : issued env sys a = none ∧ trace (step env sys a) rest = [] := by
  simp only [trace, List.append_eq_nil_iff] at h
  refine ⟨?_, h.2⟩
  cases hi : issued env sys a with
  | none => rfl
  | some r => rw [hi] at h; simp at h

theorem stage_run_le : ∀ (acts : List (Env × Action)) (sys : Sys), trace sys acts = [] →
    stage (run sys acts) ≤ stage sys
  | [], _, _ => Nat.le_refl _
  | (env, a) :: rest, sys, h => by
    obtain ⟨h1, h2⟩ := trace_cons_nil h
    exact Nat.le_trans (stage_run_le rest _ h2) (stage_step_le env a h1)

theorem stage_run_or (acts : List (Env × Action)) (sys : Sys) :
    trace sys acts ≠ [] ∨ stage (run sys acts) ≤ stage sys := by
  by_cases h : trace sys acts = []
  · exact .inr (stage_run_le acts sys h)
  · exact .inl h


/-! ### Ingestion rounds followed by an effective heartbeat -/

/-- idle, syncing enabled, no complete response stored: after the `n` ingestion rounds the next
    heartbeat sends the request the stored response calls for -/
theorem settle_ready {env : Env} {sys : Sys} {b n : Nat} (inv : Inv sys) (hp : sys.pending = none)
    (hs : sys.st.syncing.syncing = true) (hn : settles env b n sys.st = true)
    (hc : ∀ r, sys.st.syncing.response ≠ some (.complete r)) :
    ∃ req, trace sys (hbs env b (n + 1)) = [req] ∧
      run sys (hbs env b (n + 1)) =
        ⟨{ settled env b n sys.st with
            syncing := { sys.st.syncing with isFetching := true } }, some req⟩ ∧
      match sys.st.syncing.response with
      | none => ∃ anchor rest, req = .initial anchor rest ∧
          anchor :: rest = (settled env b n sys.st).unstable.tree.blocks.map CBlock.hash
      | some (.partial_ _ k) => req = .followUp k
      | some (.complete _) => False := by
  obtain ⟨st, pending⟩ := sys
  dsimp only at hp hs hn hc ⊢
  subst hp
  obtain ⟨h1, h2⟩ := run_settle env b n st none hn
  have inv1 : Inv (⟨settled env b n st, none⟩ : Sys) := by rw [← h1]; exact inv_run _ inv
  have hsy := settled_syncing env b n st
  have hq := (quiet_iff env b _).mp (settles_quiet env b n st hn)
  obtain ⟨req, hi, hstep, hsel⟩ := hb_ready (env := env) (b := b) inv1 rfl (by dsimp only; rw [hsy]; exact hs) hq
    (by dsimp only; rw [hsy]; exact hc)
  dsimp only at hstep hsel
  rw [hsy] at hstep hsel
  refine ⟨req, ?_, ?_, hsel⟩
  · rw [hbs_succ', trace_append, h2, h1]
    simp only [trace, hi]
    rfl
  · rw [hbs_succ', run_append, h1]
    simp only [run, hstep]

/-- idle with a complete response stored: after the `n` ingestion rounds the next heartbeat, if
    effective, consumes the response and sends nothing -/
theorem settle_process {env : Env} {sys : Sys} {b n : Nat} {r : CompleteResp} (hp : sys.pending = none)
    (hn : settles env b n sys.st = true) (hr : sys.st.syncing.response = some (.complete r))
    (he : effective env (settled env b n sys.st) b = true) :
    trace sys (hbs env b (n + 1)) = [] ∧
    run sys (hbs env b (n + 1)) = ⟨afterProcess env b (settled env b n sys.st), none⟩ ∧
    (afterProcess env b (settled env b n sys.st)).syncing.response = none ∧
    (afterProcess env b (settled env b n sys.st)).syncing.syncing = sys.st.syncing.syncing ∧
    (afterProcess env b (settled env b n sys.st)).syncing.rejects = sys.st.syncing.rejects := by
  obtain ⟨st, pending⟩ := sys
  dsimp only at hp hn hr he ⊢
  subst hp
  obtain ⟨h1, h2⟩ := run_settle env b n st none hn
  have hsy := settled_syncing env b n st
  obtain ⟨hi, hst, hpend, hresp, hsync, _, hrej⟩ :=
    hb_process (env := env) (sys := ⟨settled env b n st, none⟩) (b := b) (r := r) he
      (by dsimp only; rw [hsy]; exact hr)
  dsimp only at hst hpend hresp hsync hrej
  refine ⟨?_, ?_, ?_, ?_, ?_⟩
  · rw [hbs_succ', trace_append, h2, h1]
    simp only [trace, hi]
    rfl
  · rw [hbs_succ', run_append, h1]
    simp only [run]
    have eta : ∀ x : Sys, x = ⟨x.st, x.pending⟩ := fun x => rfl
    rw [eta (step env _ _), hst, hpend]
  · rw [← hst]; exact hresp
  · rw [← hst, hsync, hsy]
  · rw [← hst, hrej, hsy]


/-! ### When ingestion settles: states satisfying the ledger invariant `Spec.Inv`

`Spec.Inv s G` (`Spec/Invariant.lean`) is the global invariant of C01–C09/C20: the stable set is
the ledger of the ghost chain `G`, the caches are exact, every root path is transaction-valid.
On such a state `ingest_stable_blocks_into_utxoset` never traps, and rounds with budget `≥ 1`
finish after at most `treeWork s` (+1) heartbeats. -/

section Settling
open Btc.UtxoSet

/-- total ingestion work (input + output steps) of the unstable blocks: an upper bound for the
    work of the blocks that are stable now -/
def treeWork (s : State) : Nat := (s.unstable.tree.blocks.map (fun c => blockWork c.blk)).sum

theorem sum_map_sublist {α : Type} (f : α → Nat) {l1 l2 : List α} (h : l1.Sublist l2) :
    (l1.map f).sum ≤ (l2.map f).sum := by
  induction h with
  | slnil => exact Nat.le_refl _
  | cons a _ ih => simp only [List.map_cons, List.sum_cons]; omega
  | cons_cons a _ ih => simp only [List.map_cons, List.sum_cons]; omega

/-- `pop_block` replaces the tree by one of the children of its root -/
theorem popBlock_tree {bound : Unstable.BoundFn} {s s2 : State} {h : Nat}
    (hp : popBlock bound s h = some s2) :
    ∃ (r : CBlock) (cs : List (Tree CBlock)) (idx : Nat) (child : Tree CBlock),
      s.unstable.tree = .node r cs ∧ cs[idx]? = some child ∧ s2.unstable.tree = child := by
  unfold popBlock at hp
  split at hp
  · rename_i u b hpop
    split at hp
    · cases hp
      unfold Unstable.pop at hpop
      split at hpop
      · cases hpop
      · rename_i idx _
        split at hpop
        rename_i r cs htree
        split at hpop
        · cases hpop
        · rename_i child hchild
          dsimp only at hpop
          split at hpop
          · cases hpop
          · split at hpop
            · cases hpop
            · cases hpop
              exact ⟨r, cs, idx, child, htree, hchild, rfl⟩
    · cases hp
  · cases hp

theorem treeWork_pop {bound : Unstable.BoundFn} {s s2 : State} {h : Nat}
    (hp : popBlock bound s h = some s2) :
    treeWork s2 + blockWork s.unstable.tree.root.blk ≤ treeWork s := by
  obtain ⟨r, cs, idx, child, htree, hchild, ht2⟩ := popBlock_tree hp
  unfold treeWork
  rw [htree, ht2]
  have := sum_map_sublist (fun c : CBlock => blockWork c.blk) (Tree.blocks_child_sublist cs idx child hchild)
  simp only [Tree.blocks, Tree.root, List.map_cons, List.sum_cons]
  omega

theorem rootWork_le (s : State) : blockWork s.unstable.tree.root.blk ≤ treeWork s := by
  unfold treeWork
  cases s.unstable.tree with
  | node r cs => simp only [Tree.blocks, Tree.root, List.map_cons, List.sum_cons]; omega

/-- the loop on a state satisfying the invariant: it never traps; when it returns, the state again
    satisfies the invariant and no block is stable any more; it pauses only if the budget does not
    cover the work of the unstable blocks -/
theorem loop_class (bound : Unstable.BoundFn) : ∀ (fuel : Nat) (s : State) (G : List Block) (B : Nat) (w : Bool),
    Spec.Inv s G → s.unstable.tree.blocksCount < fuel →
    match ingestNewStable bound fuel s B w with
    | .trap _ => False
    | .done s' _ => ∃ G', Spec.Inv s' G' ∧ Unstable.peek bound s'.unstable = none
    | .paused _ => B < treeWork s
  | 0, _, _, _, _, _, h => by omega
  | fuel + 1, s, G, B, w, hI, hf => by
    cases hpeek : Unstable.peek bound s.unstable with
    | none =>
      rw [Props.C08.ingestNewStable_none _ _ _ _ _ hpeek]
      exact ⟨G, hI, hpeek⟩
    | some anchor =>
      obtain ⟨_, _, hroot⟩ := Props.InvIngest.peek_eq bound s.unstable anchor hpeek
      have hrw := rootWork_le s
      rw [← hroot] at hrw
      rcases Props.InvIngest.ingest_step_preserves_inv bound s G B anchor hI hpeek with
        ⟨hlt, hp⟩ | ⟨hle, u', s2, hu', hpop, hI2, _, _, hcnt⟩
      · cases hr : s.utxos.ingestBlock anchor.blk B with
        | paused up =>
          rw [Props.C08.ingestNewStable_paused_step _ _ _ _ _ _ up hpeek hr]
          dsimp only
          omega
        | done a b => rw [hr] at hp; cases hp
        | trap m => rw [hr] at hp; cases hp
      · rw [Props.C08.ingestNewStable_done_step _ _ _ _ _ _ u' _ s2 hpeek hu' hpop]
        have ih := loop_class bound fuel s2 _ (B - blockWork anchor.blk) true hI2 (by omega)
        have hw : treeWork s2 + blockWork s.unstable.tree.root.blk ≤ treeWork s :=
          treeWork_pop (s := { s with headers := s.headers.insert anchor.blk s.utxos.nextHeight, utxos := u' }) hpop
        rw [← hroot] at hw
        cases hres : ingestNewStable bound fuel s2 (B - blockWork anchor.blk) true with
        | trap m => rw [hres] at ih; exact ih
        | done s' w' => rw [hres] at ih; exact ih
        | paused sp =>
          rw [hres] at ih
          dsimp only at ih ⊢
          omega

/-- the same for the whole call -/
theorem ingestStable_class (bound : Unstable.BoundFn) (s : State) (G : List Block) (B : Nat)
    (hI : Spec.Inv s G) :
    match s.ingestStable bound B with
    | .trap _ => False
    | .done s' _ => ∃ G', Spec.Inv s' G' ∧ Unstable.peek bound s'.unstable = none
    | .paused _ => B < treeWork s := by
  rw [Props.C08.ingestStable_eq_loop bound s G B hI]
  exact loop_class bound _ s G B false hI (Nat.lt_succ_self _)

/-- invariant + no stable block: ingestion has nothing to do -/
theorem quiet_of_peek_none (env : Env) (b : Nat) (s : State) (G : List Block) (hI : Spec.Inv s G)
    (hpeek : Unstable.peek env.bound s.unstable = none) : quiet env b s = true := by
  rw [quiet_iff, Props.C08.ingestStable_eq_loop env.bound s G b hI,
    Props.C08.ingestNewStable_none _ _ _ _ _ hpeek]

/-- **Ingestion settles, from a paused state.** `sp` is a state paused in the middle of the
    ingestion that started at `s0` (which satisfies the invariant) and has consumed budget `B` so
    far. Heartbeats with budget `b ≥ 1` bring ingestion to rest after at most `d` rounds, where
    `B + d` covers the work of the unstable blocks of `s0`. -/
theorem settles_paused (env : Env) (b : Nat) (hb : 1 ≤ b) (s0 : State) (G : List Block)
    (hI : Spec.Inv s0 G) : ∀ (d B : Nat) (sp : State), treeWork s0 ≤ B + d →
    s0.ingestStable env.bound B = .paused sp → ∃ n, n ≤ d ∧ settles env b n sp = true
  | 0, B, sp, hd, hp => by
    have := ingestStable_class env.bound s0 G B hI
    rw [hp] at this
    dsimp only at this
    omega
  | d + 1, B, sp, hd, hp => by
    have hres := Props.C08.ingestStable_pause_resume env.bound s0 G B sp hI hp b
    have hcl := ingestStable_class env.bound s0 G (B + b) hI
    cases hr : s0.ingestStable env.bound (B + b) with
    | trap m => rw [hr] at hcl; exact hcl.elim
    | paused sp' =>
      obtain ⟨n, hn, hs⟩ := settles_paused env b hb s0 G hI d (B + b) sp' (by omega) hr
      refine ⟨n + 1, by omega, ?_⟩
      unfold settles
      rw [hres, hr]
      exact hs
    | done s' w =>
      rw [hr] at hcl
      obtain ⟨G', hI', hpeek⟩ := hcl
      cases w with
      | false =>
        refine ⟨0, Nat.zero_le _, ?_⟩
        unfold settles quiet
        rw [hres, hr]
      | true =>
        refine ⟨1, by omega, ?_⟩
        unfold settles
        rw [hres, hr]
        exact quiet_of_peek_none env b s' G' hI' hpeek

/-- **Ingestion settles.** On a state satisfying the invariant, heartbeats with budget `b ≥ 1`
    bring ingestion to rest after at most `treeWork s + 1` rounds, none of which traps. -/
theorem settles_inv (env : Env) (b : Nat) (hb : 1 ≤ b) (s : State) (G : List Block)
    (hI : Spec.Inv s G) : ∃ n, n ≤ treeWork s + 1 ∧ settles env b n s = true := by
  have hcl := ingestStable_class env.bound s G b hI
  cases hr : s.ingestStable env.bound b with
  | trap m => rw [hr] at hcl; exact hcl.elim
  | paused sp =>
    obtain ⟨n, hn, hs⟩ := settles_paused env b hb s G hI (treeWork s) b sp (by omega) hr
    refine ⟨n + 1, by omega, ?_⟩
    unfold settles
    rw [hr]
    exact hs
  | done s' w =>
    rw [hr] at hcl
    obtain ⟨G', hI', hpeek⟩ := hcl
    cases w with
    | false =>
      refine ⟨0, Nat.zero_le _, ?_⟩
      unfold settles quiet
      rw [hr]
    | true =>
      refine ⟨1, by omega, ?_⟩
      unfold settles
      rw [hr]
      exact quiet_of_peek_none env b s' G' hI' hpeek

end Settling

end Btc.Lemmas.FetchLive
