import BtcModel.Lemmas.FullSysStep

/-!
  The message-level system embeds into the direct-feed system `Spec.Reachable2`: the operations of
  `Spec.step2` commute with changes outside the ledger part (`step2_frame`), so the frame changes of
  a `FrameRun` can be dropped (`frameRun_runOps2`), and every configuration reachable by messages
  whose environments use the depth bound `bound` has the ledger part of a `Reachable2 bound`
  configuration (`fullReachable_reachable2`).
-/
namespace Btc.Lemmas.FullSys
open Btc Btc.State Btc.Spec Btc.Spec.Full Btc.Lemmas.Reach Btc.Lemmas.Reach2 Btc.Lemmas.Fetch

/-! ### Ingestion commutes with frame changes -/

def mapRes (f : State → State) : IngestResult → IngestResult
  | .paused s => .paused (f s)
  | .done s w => .done (f s) w
  | .trap m => .trap m

theorem popBlock_reframe (bound : Unstable.BoundFn) (r s : State) (h : Nat) :
    popBlock bound (reframe r s) h = (popBlock bound s h).map (reframe r) := by
  unfold popBlock
  show (match Unstable.pop bound s.unstable s.utxos.nextHeight with
    | .ok u b => if b.hash = h then some { reframe r s with unstable := u } else none
    | _ => none) = _
  cases Unstable.pop bound s.unstable s.utxos.nextHeight with
  | none_ => rfl
  | trap m => rfl
  | ok u b =>
    simp only
    split
    · rfl
    · rfl

theorem ingestNewStable_reframe (bound : Unstable.BoundFn) (r : State) :
    ∀ (fuel : Nat) (s : State) (b : Nat) (w : Bool),
      ingestNewStable bound fuel (reframe r s) b w = mapRes (reframe r) (ingestNewStable bound fuel s b w)
  | 0, s, b, w => rfl
  | fuel + 1, s, b, w => by
    unfold ingestNewStable
    show (match Unstable.peek bound s.unstable with
      | none => IngestResult.done (reframe r s) w
      | some anchor =>
        match s.utxos.ingestBlock anchor.blk b with
        | .trap m => .trap m
        | .paused u => .paused (reframe r { s with headers := s.headers.insert anchor.blk s.utxos.nextHeight, utxos := u })
        | .done u budget' =>
          match popBlock bound (reframe r { s with headers := s.headers.insert anchor.blk s.utxos.nextHeight, utxos := u }) anchor.blk.hash with
          | none => .trap "popped block differs from ingested block"
          | some s2 => ingestNewStable bound fuel s2 budget' true) = _
    cases Unstable.peek bound s.unstable with
    | none => rfl
    | some anchor =>
      simp only
      cases s.utxos.ingestBlock anchor.blk b with
      | trap m => rfl
      | paused u => rfl
      | done u budget' =>
        simp only
        rw [popBlock_reframe]
        cases popBlock bound { s with headers := s.headers.insert anchor.blk s.utxos.nextHeight, utxos := u }
            anchor.blk.hash with
        | none => rfl
        | some s2 =>
          simp only [Option.map_some]
          exact ingestNewStable_reframe bound r fuel s2 budget' true

theorem ingestStable_reframe (bound : Unstable.BoundFn) (r s : State) (b : Nat) :
    ingestStable bound (reframe r s) b = mapRes (reframe r) (ingestStable bound s b) := by
  unfold ingestStable
  show (match s.utxos.ingestContinue b with
    | none => ingestNewStable bound (s.unstable.tree.blocksCount + 1) (reframe r s) b false
    | some (.trap m) => .trap m
    | some (.paused u) => .paused (reframe r { s with utxos := u })
    | some (.done u budget') =>
      match popBlock bound (reframe r { s with utxos := u })
          (match s.utxos.ingesting with | some ing => ing.block.hash | none => 0) with
      | none => .trap "popped block differs from ingested block"
      | some s2 => ingestNewStable bound (s.unstable.tree.blocksCount + 1) s2 budget' true) = _
  cases s.utxos.ingestContinue b with
  | none => exact ingestNewStable_reframe bound r _ s b false
  | some res =>
    cases res with
    | trap m => rfl
    | paused u => rfl
    | done u budget' =>
      simp only
      rw [popBlock_reframe]
      cases popBlock bound { s with utxos := u }
          (match s.utxos.ingesting with | some ing => ing.block.hash | none => 0) with
      | none => rfl
      | some s2 =>
        simp only [Option.map_some]
        exact ingestNewStable_reframe bound r _ s2 budget' true

/-! ### `step2` commutes with frame changes -/

theorem pushDomain_frame {s t : State} {G : List Block} {b : Block} (hf : Frame s t)
    (h : PushDomain s G b) : PushDomain t G b := by
  obtain ⟨h1, h2, h3, h4, h5⟩ := h
  have hu := hf.unstable
  exact ⟨by rw [hu]; exact h1, by rw [hu]; exact h2, by rw [hu]; exact h3, by rw [hu]; exact h4,
    by rw [hu]; exact h5⟩

theorem domain2_frame {s t : State} {G : List Block} {op : Op} (hf : Frame s t)
    (h : Domain2 (s, G) op) : Domain2 (t, G) op := by
  cases op with
  | push b => exact ⟨by show t.utxos.ingesting = none; rw [hf.utxos]; exact h.1, pushDomain_frame hf h.2⟩
  | insertNext hd => show hd.hash ∉ t.unstable.tree.blocks.map CBlock.hash; rw [hf.unstable]; exact h
  | ingest _ => trivial
  | setConfig _ => trivial
  | upgrade _ => trivial
  | query => trivial

theorem setConfig_unstable (s : State) (c : SetConfig) :
    (s.setConfig c).unstable =
      match c.stabilityThreshold with
      | some v => { s.unstable with thr := v }
      | none => s.unstable := by
  rcases c with ⟨_ | _, _ | _, _ | _, _ | _, _ | _, _ | _⟩ <;> rfl

theorem setConfig_frame' {s t : State} (hf : Frame s t) (c : SetConfig) :
    Frame (s.setConfig c) (t.setConfig c) := by
  obtain ⟨s1, s2, _⟩ := setConfig_frame s c
  obtain ⟨t1, t2, _⟩ := setConfig_frame t c
  refine ⟨by rw [t1, s1]; exact hf.utxos, ?_, by rw [t2, s2]; exact hf.headers⟩
  rw [setConfig_unstable, setConfig_unstable, hf.unstable]

theorem upgrade_frame' {s t : State} (hf : Frame s t) (c : Option SetConfig) :
    Frame (s.upgrade c) (t.upgrade c) := by
  have hup : Frame (upgraded s) (upgraded t) :=
    ⟨hf.utxos, by show ({ t.unstable.clearMetrics with tipDepthsCache := t.unstable.tree.tipDepths } : Unstable) = _
                  rw [hf.unstable]; rfl, hf.headers⟩
  rw [upgrade_eq, upgrade_eq]
  cases c with
  | none => exact hup
  | some c => exact setConfig_frame' hup c

theorem poppedAnchors_frame {s t s' t' : State} (h1 : Frame s t) (h2 : Frame s' t') :
    poppedAnchors t t' = poppedAnchors s s' := by
  unfold poppedAnchors; rw [h1.unstable, h2.unstable]

/-- **every operation of `Spec.step2` commutes with changes outside the ledger part** -/
theorem step2_frame (bound : Unstable.BoundFn) {s t s' : State} {G G' : List Block} {op : Op}
    (hf : Frame s t) (hs : step2 bound (s, G) op = some (s', G')) :
    ∃ t', step2 bound (t, G) op = some (t', G') ∧ Frame s' t' := by
  cases op with
  | ingest b =>
    rw [step2_ingest] at hs ⊢
    simp only at hs ⊢
    have ht : t = reframe t s := (reframe_eq hf).symm
    rw [ht, ingestStable_reframe]
    cases hr : s.ingestStable bound b with
    | trap m => rw [hr] at hs; cases hs
    | done s1 w =>
      rw [hr] at hs
      simp only [Option.some.injEq, Prod.mk.injEq] at hs
      obtain ⟨rfl, rfl⟩ := hs
      refine ⟨reframe t s1, ?_, frame_reframe t s1⟩
      simp only [mapRes]
      rw [poppedAnchors_frame (frame_reframe t s) (frame_reframe t s1)]
    | paused sp =>
      rw [hr] at hs
      simp only [Option.some.injEq, Prod.mk.injEq] at hs
      obtain ⟨rfl, rfl⟩ := hs
      refine ⟨reframe t sp, ?_, frame_reframe t sp⟩
      simp only [mapRes]
      rw [poppedAnchors_frame (frame_reframe t s) (frame_reframe t sp)]
  | push b =>
    simp only [step2, step] at hs ⊢
    have e : t.unstable.push t.utxos b = s.unstable.push s.utxos b := by rw [hf.unstable, hf.utxos]
    rw [e]
    cases hp : s.unstable.push s.utxos b with
    | ok u =>
      rw [hp] at hs
      simp only [Option.some.injEq, Prod.mk.injEq] at hs
      obtain ⟨rfl, rfl⟩ := hs
      exact ⟨{ t with unstable := u }, rfl, ⟨hf.utxos, rfl, hf.headers⟩⟩
    | doesNotExtend => rw [hp] at hs; cases hs
    | trap m => rw [hp] at hs; cases hs
  | setConfig c =>
    simp only [step2, step, Option.some.injEq, Prod.mk.injEq] at hs ⊢
    obtain ⟨rfl, rfl⟩ := hs
    exact ⟨t.setConfig c, ⟨rfl, rfl⟩, setConfig_frame' hf c⟩
  | upgrade c =>
    simp only [step2, step, Option.some.injEq, Prod.mk.injEq] at hs ⊢
    obtain ⟨rfl, rfl⟩ := hs
    exact ⟨t.upgrade c, ⟨rfl, rfl⟩, upgrade_frame' hf c⟩
  | query =>
    simp only [step2, step, Option.some.injEq, Prod.mk.injEq] at hs ⊢
    obtain ⟨rfl, rfl⟩ := hs
    exact ⟨t, ⟨rfl, rfl⟩, hf⟩
  | insertNext hd =>
    simp only [step2, step] at hs ⊢
    have e1 : t.unstable.next.getHeader hd.hash = s.unstable.next.getHeader hd.hash := by
      rw [hf.unstable]
    have e2 : t.unstable.insertNextHeader hd t.stableHeight =
        s.unstable.insertNextHeader hd s.stableHeight := by
      rw [hf.unstable, show t.stableHeight = s.stableHeight from congrArg UtxoSet.nextHeight hf.utxos]
    rw [e1, e2]
    by_cases hk : (s.unstable.next.getHeader hd.hash).isSome = true
    · rw [if_pos hk] at hs ⊢
      simp only [Option.some.injEq, Prod.mk.injEq] at hs
      obtain ⟨rfl, rfl⟩ := hs
      exact ⟨t, rfl, hf⟩
    · rw [if_neg hk] at hs ⊢
      cases hi : s.unstable.insertNextHeader hd s.stableHeight with
      | none =>
        rw [hi] at hs
        simp only [Option.some.injEq, Prod.mk.injEq] at hs
        obtain ⟨rfl, rfl⟩ := hs
        exact ⟨t, rfl, hf⟩
      | some u =>
        rw [hi] at hs
        simp only [Option.some.injEq, Prod.mk.injEq] at hs
        obtain ⟨rfl, rfl⟩ := hs
        exact ⟨{ t with unstable := u }, rfl, ⟨hf.utxos, rfl, hf.headers⟩⟩

/-- **the frame changes of a run can be dropped**: the operations alone, executed by `runOps2`
    from any state with the same ledger part, are all in their domains and lead to a state with
    the ledger part of the end of the run -/
theorem frameRun_runOps2 {bound : Unstable.BoundFn} {sg sg' : State × List Block} {ops : List Op}
    (hr : FrameRun bound sg ops sg') : ∀ t, Frame sg.1 t →
    ∃ t', runOps2 bound (t, sg.2) ops = some (t', sg'.2) ∧ DomainAll2 bound (t, sg.2) ops ∧
      Frame sg'.1 t' := by
  induction hr with
  | nil sg => intro t hf; exact ⟨t, rfl, trivial, hf⟩
  | frame sg s1 ops sg2 hfr _ ih => intro t hf; exact ih t (Frame.trans (Frame.symm hfr) hf)
  | op sg o sg1 ops sg2 hd hs _ ih =>
    intro t hf
    obtain ⟨s, G⟩ := sg
    obtain ⟨s1, G1⟩ := sg1
    obtain ⟨t1, hst, hf1⟩ := step2_frame bound hf hs
    obtain ⟨t', hrun, hdom, hf'⟩ := ih t1 hf1
    refine ⟨t', ?_, ⟨domain2_frame hf hd, ?_⟩, hf'⟩
    · simp only [runOps2, hst, Option.bind_some]
      exact hrun
    · intro sgx hx
      rw [hst] at hx
      cases hx
      exact hdom

theorem FullReachableB.full {bound : Unstable.BoundFn} {sys : Fetch.Sys} {G : List Block}
    (h : FullReachableB bound sys G) : FullReachable sys G := by
  induction h with
  | init thr net genesis s0 hv hn => exact FullReachable.init thr net genesis s0 hv hn
  | step sys G env m _ _ ht ih => exact FullReachable.step sys G env m ih ht

/-- **The message-level system embeds into the direct-feed system**: the ledger part of every
    configuration reachable by messages is the ledger part of a `Reachable2` configuration with
    the same ghost. -/
theorem fullReachable_reachable2 {bound : Unstable.BoundFn} {sys : Fetch.Sys} {G : List Block}
    (h : FullReachableB bound sys G) : ∃ t, Reachable2 bound t G ∧ Frame sys.st t := by
  induction h with
  | init thr net genesis s0 hv hn =>
    exact ⟨s0, Reachable2.init thr net genesis s0 hv hn, Frame.refl _⟩
  | step sys G env m _ hb ht ih =>
    obtain ⟨t, hr, hf⟩ := ih
    have hsim := stepMsg_sim env (sys, G) m ht
    rw [hb] at hsim
    obtain ⟨t', hrun, hdom, hf'⟩ := frameRun_runOps2 hsim t hf
    exact ⟨t', runOps2_reachable2 _ (t, G) (t', _) hr hdom hrun, hf'⟩

/-- schedules whose environments all use the depth bound `bound` -/
theorem run_reachableB {bound : Unstable.BoundFn} : ∀ (msgs : List (Env × Msg)) (c : Cfg),
    FullReachableB bound c.1 c.2 → (∀ em ∈ msgs, em.1.bound = bound) → TrustedRun c msgs →
    FullReachableB bound (run c msgs).1 (run c msgs).2
  | [], _, h, _, _ => h
  | (env, m) :: rest, c, h, hb, ht =>
    run_reachableB rest (stepMsg env c m)
      (FullReachableB.step c.1 c.2 env m h (hb (env, m) List.mem_cons_self) ht.1)
      (fun em hem => hb em (List.mem_cons_of_mem _ hem)) ht.2

end Btc.Lemmas.FullSys
