import BtcModel.Model.BlockCodec
import BtcModel.Lemmas.TxCodec

/-! Helper lemmas for `Props/BlockCodec.lean`: header / block round trip and canonicity, sizes,
    base58 / bech32 character facts. -/
namespace Btc.BlockCodec
open Btc.TxCodec

/-! ## Header -/

theorem decodeHeader_encodeHeader (h : HeaderFields) (rest : List Nat) (hw : h.WF) :
    decodeHeader (encodeHeader h ++ rest) = some (h, rest) := by
  obtain ⟨hv, hp, _, hm, _, ht, hb, hn⟩ := hw
  unfold decodeHeader encodeHeader
  simp only [List.append_assoc]
  rw [readLE_encodeLE 4 _ _ (by rw [pow4]; exact hv)]
  simp only
  have h1 := readBytes_append h.prev
    (h.merkleRoot ++ (encodeLE 4 h.time ++ (encodeLE 4 h.bits ++ (encodeLE 4 h.nonce ++ rest))))
  rw [hp] at h1
  rw [h1]
  simp only
  have h2 := readBytes_append h.merkleRoot
    (encodeLE 4 h.time ++ (encodeLE 4 h.bits ++ (encodeLE 4 h.nonce ++ rest)))
  rw [hm] at h2
  rw [h2]
  simp only
  rw [readLE_encodeLE 4 _ _ (by rw [pow4]; exact ht)]
  simp only
  rw [readLE_encodeLE 4 _ _ (by rw [pow4]; exact hb)]
  simp only
  rw [readLE_encodeLE 4 _ _ (by rw [pow4]; exact hn)]

theorem decodeHeader_some {bs : List Nat} {h : HeaderFields} {r : List Nat} (hb : AllBytes bs)
    (hd : decodeHeader bs = some (h, r)) : bs = encodeHeader h ++ r ∧ h.WF := by
  unfold decodeHeader at hd
  split at hd
  · simp at hd
  · rename_i version r1 h1
    obtain ⟨rfl, hl1⟩ := readLE_some hb h1
    have hb := (allBytes_append.1 hb).2
    split at hd
    · simp at hd
    · rename_i prev r2 h2
      obtain ⟨rfl, hl2⟩ := readBytes_some h2
      obtain ⟨hbp, hb⟩ := allBytes_append.1 hb
      split at hd
      · simp at hd
      · rename_i root r3 h3
        obtain ⟨rfl, hl3⟩ := readBytes_some h3
        obtain ⟨hbr, hb⟩ := allBytes_append.1 hb
        split at hd
        · simp at hd
        · rename_i time r4 h4
          obtain ⟨rfl, hl4⟩ := readLE_some hb h4
          have hb := (allBytes_append.1 hb).2
          split at hd
          · simp at hd
          · rename_i bits r5 h5
            obtain ⟨rfl, hl5⟩ := readLE_some hb h5
            have hb := (allBytes_append.1 hb).2
            split at hd
            · simp at hd
            · rename_i nonce r6 h6
              obtain ⟨rfl, hl6⟩ := readLE_some hb h6
              simp only [Option.some.injEq, Prod.mk.injEq] at hd
              obtain ⟨rfl, rfl⟩ := hd
              rw [pow4] at hl1 hl4 hl5 hl6
              exact ⟨by simp [encodeHeader], hl1, hl2, hbp, hl3, hbr, hl4, hl5, hl6⟩

theorem encodeHeader_length (h : HeaderFields) (hw : h.WF) : (encodeHeader h).length = 80 := by
  obtain ⟨_, hp, _, hm, _, _, _, _⟩ := hw
  simp [encodeHeader, encodeLE_length, hp, hm]

theorem encodeHeader_allBytes (h : HeaderFields) (hw : h.WF) : AllBytes (encodeHeader h) := by
  obtain ⟨_, _, hp, _, hm, _, _, _⟩ := hw
  unfold encodeHeader
  exact allBytes_append.2 ⟨encodeLE_allBytes _ _, allBytes_append.2 ⟨hp, allBytes_append.2 ⟨hm,
    allBytes_append.2 ⟨encodeLE_allBytes _ _, allBytes_append.2 ⟨encodeLE_allBytes _ _,
      encodeLE_allBytes _ _⟩⟩⟩⟩⟩

/-! ## Block -/

theorem decodeBlock_encodeBlock (b : RawBlock) (rest : List Nat) (hw : b.WF) :
    decodeBlock (encodeBlock b ++ rest) = some (b, rest) := by
  obtain ⟨hh, hl, ht⟩ := hw
  unfold decodeBlock encodeBlock
  rw [List.append_assoc, decodeHeader_encodeHeader _ _ hh]
  simp only
  rw [decodeVec_encodeVec decodeTx encodeTx id Tx.WF
    (fun t rest h => decodeTxW_encodeTx usize64 (by decide) (Nat.le_refl _) t rest h) _ _ hl ht]
  simp

theorem decodeBlock_some {bs : List Nat} {b : RawBlock} {r : List Nat} (hb : AllBytes bs)
    (hd : decodeBlock bs = some (b, r)) : bs = encodeBlock b ++ r ∧ b.WF := by
  unfold decodeBlock at hd
  split at hd
  · simp at hd
  · rename_i h r1 h1
    obtain ⟨rfl, hwf⟩ := decodeHeader_some hb h1
    have hb := (allBytes_append.1 hb).2
    split at hd
    · simp at hd
    · rename_i txs r2 h2
      obtain ⟨rfl, hlen, hall⟩ := decodeVec_some decodeTx encodeTx Tx.WF
        (fun bs a r hb h => decodeTx_some hb h) hb h2
      simp only [Option.some.injEq, Prod.mk.injEq] at hd
      obtain ⟨rfl, rfl⟩ := hd
      exact ⟨by simp [encodeBlock], hwf, hlen, hall⟩

theorem encodeBlock_allBytes (b : RawBlock) (hw : b.WF) : AllBytes (encodeBlock b) := by
  obtain ⟨hh, hl, ht⟩ := hw
  unfold encodeBlock
  exact allBytes_append.2 ⟨encodeHeader_allBytes _ hh,
    encodeVec_allBytes _ _ hl (fun t h => encodeTx_allBytes (Nat.le_refl _) t (ht t h))⟩

/-! ## Sizes -/

theorem encodeAll_length {α : Type} (enc : α → List Nat) (l : List α) :
    (encodeAll enc l).length = (l.map (fun a => (enc a).length)).sum := by
  induction l with
  | nil => rfl
  | cons a l ih => simp [encodeAll, ih]

theorem encodeVec_length {α : Type} (enc : α → List Nat) (l : List α) :
    (encodeVec enc l).length = varIntSize l.length + (l.map (fun a => (enc a).length)).sum := by
  simp [encodeVec, encodeVarInt_length, encodeAll_length]

theorem encodeVarBytes_length (x : List Nat) :
    (encodeVarBytes x).length = varIntSize x.length + x.length := by
  simp [encodeVarBytes, encodeVarInt_length]

theorem encodeTxIn_length (i : TxCodec.TxIn) (h : i.prevTxid.length = 32) :
    (encodeTxIn i).length = txInBaseSize i := by
  simp [encodeTxIn, txInBaseSize, encodeLE_length, encodeVarBytes_length, h]; omega

theorem encodeTxOut_length (o : TxCodec.TxOut) : (encodeTxOut o).length = txOutSize o := by
  simp [encodeTxOut, txOutSize, encodeLE_length, encodeVarBytes_length]; omega

theorem encodeWitness_length (w : List (List Nat)) : (encodeWitness w).length = witnessSize w := by
  simp [encodeWitness, encodeVec_length, witnessSize, encodeVarBytes_length]

theorem sum_map_add {α : Type} (f g : α → Nat) (l : List α) :
    (l.map (fun a => f a + g a)).sum = (l.map f).sum + (l.map g).sum := by
  induction l with
  | nil => rfl
  | cons a l ih => simp [ih]; omega

theorem sum_map_zero {α : Type} (l : List α) : (l.map (fun _ => 0)).sum = 0 := by
  induction l with
  | nil => rfl
  | cons a l ih => simp [ih]

theorem sum_map_le {α : Type} (f g : α → Nat) (l : List α) (h : ∀ a ∈ l, f a ≤ g a) :
    (l.map f).sum ≤ (l.map g).sum := by
  induction l with
  | nil => simp
  | cons a l ih =>
    have := h a List.mem_cons_self
    have := ih (fun b hb => h b (List.mem_cons_of_mem _ hb))
    simp; omega

theorem sum_map_congr {α : Type} (f g : α → Nat) (l : List α) (h : ∀ a ∈ l, f a = g a) :
    (l.map f).sum = (l.map g).sum := by
  rw [List.map_congr_left h]

theorem ins_length_sum (t : TxCodec.Tx) (h : ∀ i ∈ t.inputs, i.prevTxid.length = 32) :
    (t.inputs.map (fun i => (encodeTxIn i).length)).sum = (t.inputs.map txInBaseSize).sum :=
  sum_map_congr _ _ _ (fun i hi => encodeTxIn_length i (h i hi))

theorem outs_length_sum (t : TxCodec.Tx) :
    (t.outputs.map (fun o => (encodeTxOut o).length)).sum = (t.outputs.map txOutSize).sum := by
  rw [show (fun o => (encodeTxOut o).length) = txOutSize from funext encodeTxOut_length]

theorem wits_length_sum (t : TxCodec.Tx) :
    (t.inputs.map (fun i => (encodeWitness i.witness).length)).sum =
      (t.inputs.map (fun i => witnessSize i.witness)).sum := by
  rw [show (fun i : TxCodec.TxIn => (encodeWitness i.witness).length) =
    (fun i => witnessSize i.witness) from funext (fun i => encodeWitness_length i.witness)]

/-- `base_size` is the length of the serialisation without witness data. -/
theorem baseSize_eq_length (t : TxCodec.Tx) (h : ∀ i ∈ t.inputs, i.prevTxid.length = 32) :
    baseSize t = (encodeTxNoWitness t).length := by
  simp only [encodeTxNoWitness, baseSize, List.length_append, encodeLE_length, encodeVec_length,
    ins_length_sum t h, outs_length_sum]
  omega

/-- `total_size` is the length of the consensus serialisation. -/
theorem totalSize_eq_length (t : TxCodec.Tx) (h : ∀ i ∈ t.inputs, i.prevTxid.length = 32) :
    totalSize t = (encodeTx t).length := by
  unfold totalSize totalSizeWith encodeTx
  cases hs : usesSegwit t
  · simp only [List.length_append, encodeLE_length, encodeVec_length,
      ins_length_sum t h, outs_length_sum, Bool.false_eq_true, if_false, sum_map_add,
      sum_map_zero]
    omega
  · simp only [List.length_append, List.length_cons, encodeLE_length, encodeVec_length,
      ins_length_sum t h, outs_length_sum, if_true, encodeAll_length, wits_length_sum,
      sum_map_add]
    omega

theorem baseSize_le_totalSize (t : TxCodec.Tx) : baseSize t ≤ totalSize t := by
  unfold baseSize totalSize totalSizeWith
  rw [sum_map_add]
  omega

theorem ten_le_baseSize (t : TxCodec.Tx) : 10 ≤ baseSize t := by
  have := varIntSize_pos t.inputs.length
  have := varIntSize_pos t.outputs.length
  unfold baseSize; omega

theorem vsize_bounds (t : TxCodec.Tx) : baseSize t ≤ vsizeOf t ∧ vsizeOf t ≤ totalSize t := by
  have := baseSize_le_totalSize t
  unfold vsizeOf weightOf
  omega


/-! ## Coinbase -/

theorem isCoinbase_iff (t : TxCodec.Tx) :
    isCoinbase t = true ↔ ∃ i, t.inputs = [i] ∧ isNullOutPoint i = true := by
  unfold isCoinbase
  split
  · rename_i i h; simp [h]
  · rename_i h
    constructor
    · intro h'; simp at h'
    · rintro ⟨i, hi, _⟩; exact absurd hi (h i)

theorem all_zero_iff (l : List Nat) : l.all (· == 0) = true ↔ l = List.replicate l.length 0 := by
  induction l with
  | nil => simp
  | cons a l ih =>
    simp only [List.all_cons, Bool.and_eq_true, beq_iff_eq, ih, List.length_cons,
      List.replicate_succ, List.cons.injEq]

theorem isNullOutPoint_iff (i : TxCodec.TxIn) :
    isNullOutPoint i = true ↔
      i.prevTxid = List.replicate i.prevTxid.length 0 ∧ i.vout = 4294967295 := by
  unfold isNullOutPoint
  rw [Bool.and_eq_true, all_zero_iff, beq_iff_eq]

/-! ## OP_RETURN -/

theorem addressOf_opReturn (net : Tree.Net) (s : List Nat) (h : isOpReturn s = true) :
    addressOf net s = none := by
  cases s with
  | nil => simp [isOpReturn] at h
  | cons b bs =>
    simp only [isOpReturn, beq_iff_eq] at h
    subst h
    have h1 : isP2pkh (0x6a :: bs) = false := by simp [isP2pkh]
    have h2 : isP2sh (0x6a :: bs) = false := by simp [isP2sh]
    have h3 : witnessVersion (0x6a :: bs) = none := by
      simp [witnessVersion, witnessVersionOfOpcode]
    simp [addressOf, h1, h2, h3]

/-! ## Base58 -/

theorem b58Digits_lt (fuel n : Nat) (acc : List Nat) (h : ∀ d ∈ acc, d < 58) :
    ∀ d ∈ b58Digits fuel n acc, d < 58 := by
  induction fuel generalizing n acc with
  | zero => simpa [b58Digits] using h
  | succ f ih =>
    unfold b58Digits
    split
    · exact h
    · apply ih
      intro d hd
      rcases List.mem_cons.1 hd with rfl | hd
      · omega
      · exact h d hd

theorem getD_mem_of_lt (l : List Nat) (d : Nat) (h : d < l.length) : l.getD d 0 ∈ l := by
  rw [List.getD_eq_getElem?_getD, List.getElem?_eq_getElem h]; exact List.getElem_mem h

theorem base58Encode_chars (data : List Nat) : ∀ c ∈ base58Encode data, c ∈ b58Alphabet := by
  intro c hc
  unfold base58Encode at hc
  simp only [List.mem_map, List.mem_append, List.mem_replicate] at hc
  obtain ⟨d, hd, rfl⟩ := hc
  apply getD_mem_of_lt
  rw [show b58Alphabet.length = 58 from rfl]
  rcases hd with ⟨_, rfl⟩ | hd
  · omega
  · exact b58Digits_lt _ _ [] (by simp) d hd

/-! ## Bech32 -/

theorem fe5_lt (a b c d e : Bool) : fe5 a b c d e < 32 := by
  cases a <;> cases b <;> cases c <;> cases d <;> cases e <;> decide

theorem groups5_lt (bits : List Bool) : ∀ d ∈ groups5 bits, d < 32 := by
  fun_induction groups5 bits <;> simp_all [fe5_lt]

theorem bech32Checksum_lt (c : Nat) (hrp data : List Nat) :
    ∀ d ∈ bech32Checksum c hrp data, d < 32 := by
  intro d hd
  simp only [bech32Checksum, List.mem_cons, List.not_mem_nil, or_false] at hd
  rcases hd with rfl | rfl | rfl | rfl | rfl | rfl <;> exact Nat.lt_succ_of_le Nat.and_le_right

theorem segwitEncode_shape (hrp : List Nat) (v : Nat) (prog : List Nat) (hv : v < 32) :
    ∃ rest, segwitEncode hrp v prog = hrp ++ 49 :: rest ∧
      (∀ c ∈ rest, c ∈ bech32Charset) ∧ rest.length = 1 + (bytesToFes prog).length + 6 := by
  refine ⟨_, rfl, ?_, ?_⟩
  · intro c hc
    simp only [List.mem_map, List.mem_append, List.mem_cons] at hc
    obtain ⟨d, hd, rfl⟩ := hc
    apply getD_mem_of_lt
    rw [show bech32Charset.length = 32 from rfl]
    rcases hd with (rfl | hd) | hd
    · exact hv
    · exact groups5_lt _ d hd
    · exact bech32Checksum_lt _ _ _ d hd
  · simp [bech32Checksum]; omega

theorem witnessVersionOfOpcode_le {op v : Nat} (h : witnessVersionOfOpcode op = some v) :
    v ≤ 16 := by
  unfold witnessVersionOfOpcode at h
  split at h
  · simp at h; omega
  · split at h
    · simp at h; omega
    · simp at h

theorem witnessVersion_le {s : List Nat} {v : Nat} (h : witnessVersion s = some v) : v ≤ 16 := by
  simp only [witnessVersion] at h
  split at h
  · simp at h
  · split at h
    · simp at h
    · split at h
      · simp at h
      · exact witnessVersionOfOpcode_le h

theorem addressOf_cases (net : Tree.Net) (s a : List Nat) (h : addressOf net s = some a) :
    (isP2pkh s = true ∧ a = base58Check (p2pkhPrefix net :: (s.drop 3).take 20)) ∨
    (isP2pkh s = false ∧ isP2sh s = true ∧
      a = base58Check (p2shPrefix net :: (s.drop 2).take 20)) ∨
    (isP2pkh s = false ∧ isP2sh s = false ∧ ∃ v, witnessVersion s = some v ∧
      witnessProgramOk v (s.drop 2) = true ∧ a = segwitEncode (hrpOf net) v (s.drop 2)) := by
  unfold addressOf at h
  split at h
  · rename_i h1
    left; exact ⟨h1, (Option.some.inj h).symm⟩
  · rename_i h1
    split at h
    · rename_i h2
      right; left; exact ⟨by simpa using h1, h2, (Option.some.inj h).symm⟩
    · rename_i h2
      right; right
      refine ⟨by simpa using h1, by simpa using h2, ?_⟩
      split at h
      · rename_i v hv
        simp only at h
        split at h
        · rename_i hok
          exact ⟨v, hv, hok, (Option.some.inj h).symm⟩
        · simp at h
      · simp at h


/-! ## Injectivity of the 8→5 bit regrouping and of the segwit text -/

theorem mod2_beq_toNat (n : Nat) : (n % 2 == 1).toNat = n % 2 := by
  rcases Nat.mod_two_eq_zero_or_one n with h | h <;> simp [h]

/-- value of a bit string, most significant bit first -/
def bitsVal (l : List Bool) : Nat := l.foldl (fun acc b => 2 * acc + b.toNat) 0

theorem bitsVal_byteBits (a : Nat) (h : a < 256) : bitsVal (byteBits a) = a := by
  simp only [bitsVal, byteBits, List.foldl, mod2_beq_toNat]
  omega

theorem byteBits_inj {a b : Nat} (ha : a < 256) (hb : b < 256) (h : byteBits a = byteBits b) :
    a = b := by
  rw [← bitsVal_byteBits a ha, ← bitsVal_byteBits b hb, h]

theorem byteBits_length (a : Nat) : (byteBits a).length = 8 := rfl

theorem flatMap_byteBits_length (p : List Nat) : (p.flatMap byteBits).length = 8 * p.length := by
  induction p with
  | nil => rfl
  | cons a p ih => simp [List.flatMap_cons, byteBits_length, ih]; omega

theorem flatMap_byteBits_inj : ∀ (p q : List Nat), AllBytes p → AllBytes q →
    p.flatMap byteBits = q.flatMap byteBits → p = q
  | [], [], _, _, _ => rfl
  | [], b :: q, _, _, h => by
    have := congrArg List.length h
    rw [flatMap_byteBits_length, flatMap_byteBits_length] at this
    simp only [List.length_cons, List.length_nil] at this
    omega
  | a :: p, [], _, _, h => by
    have := congrArg List.length h
    rw [flatMap_byteBits_length, flatMap_byteBits_length] at this
    simp only [List.length_cons, List.length_nil] at this
    omega
  | a :: p, b :: q, hp, hq, h => by
    rw [List.flatMap_cons, List.flatMap_cons] at h
    obtain ⟨h1, h2⟩ := List.append_inj h (by simp [byteBits_length])
    obtain ⟨ha, hp⟩ := allBytes_cons.1 hp
    obtain ⟨hb, hq⟩ := allBytes_cons.1 hq
    rw [byteBits_inj ha hb h1, flatMap_byteBits_inj p q hp hq h2]

/-- the five bits of a field element -/
def fe5Bits (d : Nat) : List Bool :=
  [d / 16 % 2 == 1, d / 8 % 2 == 1, d / 4 % 2 == 1, d / 2 % 2 == 1, d % 2 == 1]

def fesBits (l : List Nat) : List Bool := l.flatMap fe5Bits

theorem fe5Bits_fe5 (a b c d e : Bool) : fe5Bits (fe5 a b c d e) = [a, b, c, d, e] := by
  cases a <;> cases b <;> cases c <;> cases d <;> cases e <;> decide

theorem fesBits_groups5_take (bits : List Bool) :
    (fesBits (groups5 bits)).take bits.length = bits := by
  fun_induction groups5 bits with
  | case1 b0 b1 b2 b3 b4 rest ih =>
    simp only [fesBits, List.flatMap_cons, fe5Bits_fe5, List.length_cons] at ih ⊢
    simp [ih]
  | case2 b0 b1 b2 b3 => simp [fesBits, fe5Bits_fe5]
  | case3 b0 b1 b2 => simp [fesBits, fe5Bits_fe5]
  | case4 b0 b1 => simp [fesBits, fe5Bits_fe5]
  | case5 b0 => simp [fesBits, fe5Bits_fe5]
  | case6 => rfl

theorem groups5_length (bits : List Bool) : (groups5 bits).length = (bits.length + 4) / 5 := by
  fun_induction groups5 bits with
  | case1 b0 b1 b2 b3 b4 rest ih => simp only [List.length_cons, ih]; omega
  | case2 b0 b1 b2 b3 => simp
  | case3 b0 b1 b2 => simp
  | case4 b0 b1 => simp
  | case5 b0 => simp
  | case6 => rfl

theorem bytesToFes_length (p : List Nat) : (bytesToFes p).length = (8 * p.length + 4) / 5 := by
  rw [bytesToFes, groups5_length, flatMap_byteBits_length]

/-- `bytes_to_fes` is injective on byte strings. -/
theorem bytesToFes_inj (p q : List Nat) (hp : AllBytes p) (hq : AllBytes q)
    (h : bytesToFes p = bytesToFes q) : p = q := by
  have hl : p.length = q.length := by
    have := congrArg List.length h
    rw [bytesToFes_length, bytesToFes_length] at this
    omega
  apply flatMap_byteBits_inj p q hp hq
  have h1 := fesBits_groups5_take (p.flatMap byteBits)
  have h2 := fesBits_groups5_take (q.flatMap byteBits)
  unfold bytesToFes at h
  rw [h, flatMap_byteBits_length, hl, ← flatMap_byteBits_length q, h2] at h1
  exact h1.symm

theorem map_inj_on {α β : Type} (f : α → β) (P : α → Prop)
    (hf : ∀ x y, P x → P y → f x = f y → x = y) :
    ∀ (l l' : List α), (∀ x ∈ l, P x) → (∀ x ∈ l', P x) → l.map f = l'.map f → l = l'
  | [], [], _, _, _ => rfl
  | [], _ :: _, _, _, h => by simp at h
  | _ :: _, [], _, _, h => by simp at h
  | a :: l, b :: l', h1, h2, h => by
    simp only [List.map_cons, List.cons.injEq] at h
    rw [hf a b (h1 a List.mem_cons_self) (h2 b List.mem_cons_self) h.1,
      map_inj_on f P hf l l' (fun x hx => h1 x (List.mem_cons_of_mem _ hx))
        (fun x hx => h2 x (List.mem_cons_of_mem _ hx)) h.2]

theorem bech32Char_inj : ∀ d < 32, ∀ d' < 32,
    bech32Charset.getD d 0 = bech32Charset.getD d' 0 → d = d' := by decide

theorem bech32Checksum_length (c : Nat) (hrp data : List Nat) :
    (bech32Checksum c hrp data).length = 6 := rfl

/-- The segwit text determines witness version and program. -/
theorem segwitEncode_inj (hrp : List Nat) (v v' : Nat) (p p' : List Nat) (hv : v < 32)
    (hv' : v' < 32) (hp : AllBytes p) (hp' : AllBytes p')
    (h : segwitEncode hrp v p = segwitEncode hrp v' p') : v = v' ∧ p = p' := by
  unfold segwitEncode at h
  simp only at h
  have h := List.cons.inj (List.append_cancel_left h)
  have hlt : ∀ (v : Nat) (p : List Nat) (c : Nat), v < 32 →
      ∀ d ∈ (v :: bytesToFes p) ++ bech32Checksum c hrp (v :: bytesToFes p), d < 32 := by
    intro v p c hv d hd
    rcases List.mem_append.1 hd with hd | hd
    · rcases List.mem_cons.1 hd with rfl | hd
      · exact hv
      · exact groups5_lt _ d hd
    · exact bech32Checksum_lt _ _ _ d hd
  have h2 := map_inj_on (fun d => bech32Charset.getD d 0) (· < 32)
    (fun x y hx hy => bech32Char_inj x hx y hy) _ _ (hlt v p _ hv) (hlt v' p' _ hv') h.2
  obtain ⟨h3, _⟩ := List.append_inj' h2 (by simp [bech32Checksum_length])
  obtain ⟨rfl, h4⟩ := List.cons.inj h3
  exact ⟨rfl, bytesToFes_inj p p' hp hp' h4⟩

end Btc.BlockCodec
