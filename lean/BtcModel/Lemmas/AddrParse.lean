import BtcModel.Model.AddrParse
import BtcModel.Lemmas.BlockCodec

/-
  Lemmas about `Model/AddrParse.lean` (the canister's reading of a request's address string) and its
  relation to `Model/BlockCodec.lean` (`addressOf`): table look-ups, ASCII case, the separator split,
  linearity of the bech32 checksum in its last six symbols (a fresh checksum verifies; only it
  verifies), the 8↔5 bit regrouping in both directions, base-58 / base-256 positional numerals.
-/
namespace Btc.AddrParse
open Btc.BlockCodec Btc.TxCodec

/-! ## Tables, case, separator -/

/-! ### tables -/

theorem indexOf_some {c : Nat} {l : List Nat} {d : Nat} (h : indexOf c l = some d) :
    d < l.length ∧ l.getD d 0 = c := by
  induction l generalizing d with
  | nil => simp [indexOf] at h
  | cons x xs ih =>
    unfold indexOf at h
    split at h
    · rename_i hx
      simp only [Option.some.injEq] at h
      subst h; subst hx
      simp
    · cases hi : indexOf c xs with
      | none => simp [hi] at h
      | some e =>
        simp only [hi, Option.map_some, Option.some.injEq] at h
        subst h
        obtain ⟨h1, h2⟩ := ih hi
        simp only [List.length_cons, List.getD_cons_succ]
        exact ⟨by omega, h2⟩

theorem mapOpt_map (f : Nat → Option Nat) (g : Nat → Nat) (l : List Nat)
    (h : ∀ d ∈ l, f (g d) = some d) : mapOpt f (l.map g) = some l := by
  induction l with
  | nil => rfl
  | cons d l ih =>
    simp only [List.map_cons, mapOpt, h d List.mem_cons_self,
      ih (fun x hx => h x (List.mem_cons_of_mem _ hx))]

theorem mapOpt_some (f : Nat → Option Nat) (g k : Nat → Nat) (P : Nat → Prop)
    (hf : ∀ c d, f c = some d → P d ∧ g d = k c) :
    ∀ (cs ds : List Nat), mapOpt f cs = some ds → (∀ d ∈ ds, P d) ∧ ds.map g = cs.map k
  | [], ds, h => by
    simp only [mapOpt, Option.some.injEq] at h
    subst h; simp
  | c :: cs, ds, h => by
    unfold mapOpt at h
    split at h
    · simp at h
    · rename_i d hd
      split at h
      · simp at h
      · rename_i ds' hds
        simp only [Option.some.injEq] at h
        subst h
        obtain ⟨h1, h2⟩ := mapOpt_some f g k P hf cs ds' hds
        obtain ⟨h3, h4⟩ := hf c d hd
        refine ⟨?_, by simp [h2, h4]⟩
        intro x hx
        rcases List.mem_cons.1 hx with rfl | hx
        · exact h3
        · exact h1 x hx

theorem fe32OfChar_charset : ∀ d < 32, fe32OfChar (bech32Charset.getD d 0) = some d := by decide

theorem base58Digit_alphabet : ∀ d < 58, base58Digit (b58Alphabet.getD d 0) = some d := by decide

theorem charset_not_sep : ∀ d < 32, bech32Charset.getD d 0 ≠ 49 := by decide

theorem charset_not_upper : ∀ d < 32, isUpper (bech32Charset.getD d 0) = false := by decide

theorem charset_lower : ∀ d < 32, toLower (bech32Charset.getD d 0) = bech32Charset.getD d 0 := by
  decide

theorem fe32OfChar_some {c d : Nat} (h : fe32OfChar c = some d) :
    d < 32 ∧ bech32Charset.getD d 0 = toLower c := indexOf_some h

theorem base58Digit_some {c d : Nat} (h : base58Digit c = some d) :
    d < 58 ∧ b58Alphabet.getD d 0 = c := indexOf_some h

/-! ### case -/

theorem toUpper_toLower (c : Nat) (h : isLower c = false) : toUpper (toLower c) = c := by
  simp only [toUpper, toLower, isLower, isUpper, decide_eq_false_iff_not, decide_eq_true_eq] at *
  by_cases hu : 65 ≤ c ∧ c ≤ 90
  · rw [if_pos hu, if_pos (by omega)]; omega
  · rw [if_neg hu, if_neg h]

theorem lowerCase_of_no_upper (s : List Nat) (h : s.any isUpper = false) : lowerCase s = s := by
  induction s with
  | nil => rfl
  | cons c s ih =>
    simp only [List.any_cons, Bool.or_eq_false_iff] at h
    simp only [lowerCase, List.map_cons] at ih ⊢
    rw [ih h.2]
    simp [toLower, h.1]

theorem upperCase_lowerCase_of_no_lower (s : List Nat) (h : s.any isLower = false) :
    upperCase (lowerCase s) = s := by
  induction s with
  | nil => rfl
  | cons c s ih =>
    simp only [List.any_cons, Bool.or_eq_false_iff] at h
    simp only [lowerCase, upperCase, List.map_cons, List.map_map] at ih ⊢
    rw [ih h.2, toUpper_toLower c h.1]

theorem lowerCase_append (a b : List Nat) : lowerCase (a ++ b) = lowerCase a ++ lowerCase b := by
  simp [lowerCase]

/-! ### separator -/

theorem splitLastSep_none (s : List Nat) (h : 49 ∉ s) : splitLastSep s = none := by
  induction s with
  | nil => rfl
  | cons c s ih =>
    simp only [List.mem_cons, not_or] at h
    simp only [splitLastSep, ih h.2]
    rw [if_neg (fun e => h.1 e.symm)]

theorem splitLastSep_append (h d : List Nat) (hd : 49 ∉ d) :
    splitLastSep (h ++ 49 :: d) = some (h, d) := by
  induction h with
  | nil => simp [splitLastSep, splitLastSep_none d hd]
  | cons c h ih => simp [splitLastSep, ih]

theorem splitLastSep_some : ∀ (s h d : List Nat), splitLastSep s = some (h, d) →
    s = h ++ 49 :: d ∧ 49 ∉ d
  | [], h, d, e => by simp [splitLastSep] at e
  | c :: cs, h, d, e => by
    unfold splitLastSep at e
    split at e
    · rename_i h' d' he
      simp only [Option.some.injEq, Prod.mk.injEq] at e
      obtain ⟨rfl, rfl⟩ := e
      obtain ⟨h1, h2⟩ := splitLastSep_some cs h' d' he
      exact ⟨by rw [h1]; rfl, h2⟩
    · rename_i hn
      split at e
      · rename_i hc
        simp only [Option.some.injEq, Prod.mk.injEq] at e
        obtain ⟨rfl, rfl⟩ := e
        subst hc
        refine ⟨rfl, ?_⟩
        intro hm
        -- a '1' in the rest would have been found
        have : ∀ (l : List Nat), 49 ∈ l → splitLastSep l ≠ none := by
          intro l
          induction l with
          | nil => simp
          | cons x xs ih =>
            intro hx
            unfold splitLastSep
            split
            · simp
            · rename_i hnone
              rcases List.mem_cons.1 hx with rfl | hx
              · simp
              · exact absurd hnone (ih hx)
        exact this _ hm hn
      · simp at e

/-! ## The bech32 checksum -/

theorem shl_xor_eq_add (a c i : Nat) (hc : c < 2 ^ i) : (a <<< i) ^^^ c = a * 2 ^ i + c := by
  rw [Nat.shiftLeft_eq, Nat.mul_comm, Nat.two_pow_add_eq_or_of_lt hc]
  apply Nat.eq_of_testBit_eq
  intro j
  rw [Nat.testBit_xor, Nat.testBit_or, Nat.testBit_two_pow_mul]
  by_cases hj : i ≤ j
  · have : c.testBit j = false := Nat.testBit_lt_two_pow (Nat.lt_of_lt_of_le hc (Nat.pow_le_pow_right (by omega) hj))
    simp [this]
  · simp [hj]

/-- generator contribution of the top bits -/
def gen (b : Nat) : Nat :=
  (if b &&& 1 ≠ 0 then 0x3b6a57b2 else 0) ^^^ (if b &&& 2 ≠ 0 then 0x26508e6d else 0) ^^^
  (if b &&& 4 ≠ 0 then 0x1ea119fa else 0) ^^^ (if b &&& 8 ≠ 0 then 0x3d4233dd else 0) ^^^
  (if b &&& 16 ≠ 0 then 0x2a1462b3 else 0)

theorem ite_xor' (c : Prop) [Decidable c] (x k : Nat) :
    (if c then x ^^^ k else x) = x ^^^ (if c then k else 0) := by split <;> simp

theorem polymodStep_eq (chk v : Nat) :
    polymodStep chk v = (((chk &&& 0x1ffffff) <<< 5) ^^^ v) ^^^ gen (chk >>> 25) := by
  unfold polymodStep gen
  simp only [ite_xor']
  ac_rfl


theorem gen_lt (b : Nat) : gen b < 2 ^ 30 := by
  unfold gen
  refine Nat.xor_lt_two_pow (Nat.xor_lt_two_pow (Nat.xor_lt_two_pow (Nat.xor_lt_two_pow ?_ ?_) ?_) ?_) ?_ <;>
    split <;> decide

theorem polymodStep_lt (chk v : Nat) (hv : v < 2 ^ 30) : polymodStep chk v < 2 ^ 30 := by
  rw [polymodStep_eq]
  refine Nat.xor_lt_two_pow (Nat.xor_lt_two_pow ?_ hv) (gen_lt _)
  have : chk &&& 0x1ffffff ≤ 0x1ffffff := Nat.and_le_right
  rw [Nat.shiftLeft_eq]
  omega

theorem polymodStep_xor (X d v : Nat) (hd : d < 2 ^ 25) (hv : v < 32) :
    polymodStep (X ^^^ d) v = polymodStep X 0 ^^^ (d * 32 + v) := by
  rw [polymodStep_eq, polymodStep_eq]
  have h1 : (X ^^^ d) >>> 25 = X >>> 25 := by
    rw [Nat.shiftRight_xor_distrib, Nat.shiftRight_eq_div_pow d, Nat.div_eq_of_lt hd, Nat.xor_zero]
  have h3 : d &&& 0x1ffffff = d := by
    have := Nat.and_two_pow_sub_one_eq_mod d 25
    rw [Nat.mod_eq_of_lt hd] at this
    exact this
  have h2 : ((X ^^^ d) &&& 0x1ffffff) <<< 5 = ((X &&& 0x1ffffff) <<< 5) ^^^ (d <<< 5) := by
    rw [Nat.and_xor_distrib_right, Nat.shiftLeft_xor_distrib, h3]
  have h4 : d * 32 + v = (d <<< 5) ^^^ v := (shl_xor_eq_add d v 5 hv).symm
  rw [h1, h2, Nat.xor_zero, h4]
  ac_rfl

theorem polymodStep_zero_xor (X v : Nat) (hv : v < 32) :
    polymodStep X v = polymodStep X 0 ^^^ v := by
  have := polymodStep_xor X 0 v (by decide) hv
  simpa using this

/-- The value of six field elements as one 30-bit number. -/
def pack6 (c0 c1 c2 c3 c4 c5 : Nat) : Nat :=
  ((((c0 * 32 + c1) * 32 + c2) * 32 + c3) * 32 + c4) * 32 + c5

theorem foldl_polymodStep6 (P c0 c1 c2 c3 c4 c5 : Nat) (h0 : c0 < 32) (h1 : c1 < 32)
    (h2 : c2 < 32) (h3 : c3 < 32) (h4 : c4 < 32) (h5 : c5 < 32) :
    [c0, c1, c2, c3, c4, c5].foldl polymodStep P =
      [0, 0, 0, 0, 0, 0].foldl polymodStep P ^^^ pack6 c0 c1 c2 c3 c4 c5 := by
  simp only [List.foldl, pack6]
  rw [polymodStep_zero_xor P c0 h0,
    polymodStep_xor _ c0 c1 (by omega) h1,
    polymodStep_xor _ (c0 * 32 + c1) c2 (by omega) h2,
    polymodStep_xor _ ((c0 * 32 + c1) * 32 + c2) c3 (by omega) h3,
    polymodStep_xor _ (((c0 * 32 + c1) * 32 + c2) * 32 + c3) c4 (by omega) h4,
    polymodStep_xor _ ((((c0 * 32 + c1) * 32 + c2) * 32 + c3) * 32 + c4) c5 (by omega) h5]

theorem and31 (x : Nat) : x &&& 31 = x % 32 := Nat.and_two_pow_sub_one_eq_mod x 5

/-- The six 5-bit groups of a 30-bit number. -/
def unpack6 (pm : Nat) : List Nat :=
  [(pm >>> 25) &&& 31, (pm >>> 20) &&& 31, (pm >>> 15) &&& 31, (pm >>> 10) &&& 31,
   (pm >>> 5) &&& 31, pm &&& 31]

theorem unpack6_eq (pm : Nat) : unpack6 pm =
    [pm / 2 ^ 25 % 32, pm / 2 ^ 20 % 32, pm / 2 ^ 15 % 32, pm / 2 ^ 10 % 32, pm / 2 ^ 5 % 32,
      pm % 32] := by
  simp only [unpack6, and31, Nat.shiftRight_eq_div_pow]

theorem bech32Checksum_eq (const : Nat) (hrp data : List Nat) :
    bech32Checksum const hrp data =
      unpack6 (polymod (hrpExpand hrp ++ data ++ [0, 0, 0, 0, 0, 0]) ^^^ const) := rfl

theorem polymod_append (xs ys : List Nat) :
    polymod (xs ++ ys) = ys.foldl polymodStep (polymod xs) := by
  simp [polymod, List.foldl_append]

theorem foldl_polymodStep_lt (ys : List Nat) (P : Nat) (hP : P < 2 ^ 30) (h : ∀ y ∈ ys, y < 2 ^ 30) :
    ys.foldl polymodStep P < 2 ^ 30 := by
  induction ys generalizing P with
  | nil => exact hP
  | cons y ys ih =>
    simp only [List.foldl]
    exact ih _ (polymodStep_lt _ _ (h y List.mem_cons_self)) (fun z hz => h z (List.mem_cons_of_mem _ hz))

theorem pack6_unpack6 (pm : Nat) (h : pm < 2 ^ 30) :
    pack6 (pm / 2 ^ 25 % 32) (pm / 2 ^ 20 % 32) (pm / 2 ^ 15 % 32) (pm / 2 ^ 10 % 32)
      (pm / 2 ^ 5 % 32) (pm % 32) = pm := by
  unfold pack6; omega

theorem foldl_unpack6 (P pm : Nat) (h : pm < 2 ^ 30) :
    (unpack6 pm).foldl polymodStep P = [0, 0, 0, 0, 0, 0].foldl polymodStep P ^^^ pm := by
  rw [unpack6_eq, foldl_polymodStep6 P _ _ _ _ _ _ (Nat.mod_lt _ (by decide))
    (Nat.mod_lt _ (by decide)) (Nat.mod_lt _ (by decide)) (Nat.mod_lt _ (by decide))
    (Nat.mod_lt _ (by decide)) (Nat.mod_lt _ (by decide)), pack6_unpack6 pm h]

theorem zeros6_lt (P : Nat) : [0, 0, 0, 0, 0, 0].foldl polymodStep P < 2 ^ 30 := by
  simp only [List.foldl]
  exact polymodStep_lt _ _ (by decide)

/-- A freshly computed checksum verifies. -/
theorem polymod_checksum (const : Nat) (pre : List Nat) (hc : const < 2 ^ 30) :
    polymod (pre ++ unpack6 (polymod (pre ++ [0, 0, 0, 0, 0, 0]) ^^^ const)) = const := by
  rw [polymod_append, polymod_append]
  rw [foldl_unpack6 _ _ (Nat.xor_lt_two_pow (zeros6_lt _) hc), ← Nat.xor_assoc, Nat.xor_self,
    Nat.zero_xor]

/-- Only the computed checksum verifies. -/
theorem polymod_checksum_unique (const : Nat) (pre cs : List Nat) (hl : cs.length = 6)
    (hcs : ∀ c ∈ cs, c < 32) (h : polymod (pre ++ cs) = const) :
    cs = unpack6 (polymod (pre ++ [0, 0, 0, 0, 0, 0]) ^^^ const) := by
  match cs, hl with
  | [c0, c1, c2, c3, c4, c5], _ =>
    have h0 := hcs c0 (by simp)
    have h1 := hcs c1 (by simp)
    have h2 := hcs c2 (by simp)
    have h3 := hcs c3 (by simp)
    have h4 := hcs c4 (by simp)
    have h5 := hcs c5 (by simp)
    rw [polymod_append, foldl_polymodStep6 _ _ _ _ _ _ _ h0 h1 h2 h3 h4 h5] at h
    rw [polymod_append, ← h, ← Nat.xor_assoc, Nat.xor_self, Nat.zero_xor, unpack6_eq]
    unfold pack6
    simp only [List.cons.injEq, and_true]
    refine ⟨?_, ?_, ?_, ?_, ?_, ?_⟩ <;> omega

/-! ## Regrouping bits: `fes_to_bytes ∘ bytes_to_fes` -/

theorem feBits_eq : feBits = fe5Bits := rfl

/-- number of zero bits `groups5` pads with -/
def padOf (n : Nat) : Nat := (5 - n % 5) % 5

theorem fesBits_groups5 (bits : List Bool) :
    fesBits (groups5 bits) = bits ++ List.replicate (padOf bits.length) false := by
  fun_induction groups5 bits with
  | case1 b0 b1 b2 b3 b4 rest ih =>
    simp only [fesBits, List.flatMap_cons, fe5Bits_fe5, List.length_cons] at ih ⊢
    rw [ih]
    have : padOf (rest.length + 1 + 1 + 1 + 1 + 1) = padOf rest.length := by unfold padOf; omega
    simp [this]
  | case2 b0 b1 b2 b3 => simp [fesBits, fe5Bits_fe5, padOf]
  | case3 b0 b1 b2 => simp [fesBits, fe5Bits_fe5, padOf]
  | case4 b0 b1 => simp [fesBits, fe5Bits_fe5, padOf]
  | case5 b0 => simp [fesBits, fe5Bits_fe5, padOf]
  | case6 => rfl

theorem groups8_short : ∀ (l : List Bool), l.length < 8 → groups8 l = []
  | [], _ => rfl
  | [_], _ => rfl
  | [_, _], _ => rfl
  | [_, _, _], _ => rfl
  | [_, _, _, _], _ => rfl
  | [_, _, _, _, _], _ => rfl
  | [_, _, _, _, _, _], _ => rfl
  | [_, _, _, _, _, _, _], _ => rfl
  | _ :: _ :: _ :: _ :: _ :: _ :: _ :: _ :: _, h => by simp at h; omega

theorem byteOfBits_byteBits (a : Nat) (h : a < 256) (rest : List Bool) :
    groups8 (byteBits a ++ rest) = a :: groups8 rest := by
  simp only [byteBits, List.cons_append, List.nil_append, groups8, byteOfBits, mod2_beq_toNat,
    List.cons.injEq, and_true]
  omega

theorem groups8_flatMap_byteBits (p : List Nat) (hp : AllBytes p) (pad : List Bool)
    (hpad : pad.length < 8) : groups8 (p.flatMap byteBits ++ pad) = p := by
  induction p with
  | nil => simpa using groups8_short pad hpad
  | cons a p ih =>
    obtain ⟨ha, hp⟩ := allBytes_cons.1 hp
    rw [List.flatMap_cons, List.append_assoc, byteOfBits_byteBits a ha, ih hp]

/-- `fes_to_bytes ∘ bytes_to_fes = id` -/
theorem fesToBytes_bytesToFes (p : List Nat) (hp : AllBytes p) : fesToBytes (bytesToFes p) = p := by
  have := fesBits_groups5 (p.flatMap byteBits)
  unfold fesToBytes bytesToFes
  rw [feBits_eq]
  unfold fesBits at this
  rw [this]
  apply groups8_flatMap_byteBits p hp
  rw [List.length_replicate]
  unfold padOf; omega

theorem groups5_last (bits : List Bool) (last : Nat)
    (h : (groups5 bits).getLast? = some last) : last % 2 ^ padOf bits.length = 0 := by
  fun_induction groups5 bits with
  | case1 b0 b1 b2 b3 b4 rest ih =>
    have hp : padOf (b0 :: b1 :: b2 :: b3 :: b4 :: rest).length = padOf rest.length := by
      simp only [List.length_cons]; unfold padOf; omega
    rw [hp]
    cases hr : groups5 rest with
    | nil =>
      have : rest = [] := by
        cases rest with
        | nil => rfl
        | cons x xs =>
          have := congrArg List.length hr
          rw [groups5_length] at this
          simp only [List.length_cons, List.length_nil] at this
          omega
      subst this
      simp [padOf, Nat.mod_one]
    | cons x xs =>
      rw [hr] at h ih
      rw [List.getLast?_cons_cons] at h
      exact ih h
  | case2 b0 b1 b2 b3 =>
    simp only [List.getLast?_singleton, Option.some.injEq] at h
    subst h
    cases b0 <;> cases b1 <;> cases b2 <;> cases b3 <;> decide
  | case3 b0 b1 b2 =>
    simp only [List.getLast?_singleton, Option.some.injEq] at h
    subst h
    cases b0 <;> cases b1 <;> cases b2 <;> decide
  | case4 b0 b1 =>
    simp only [List.getLast?_singleton, Option.some.injEq] at h
    subst h
    cases b0 <;> cases b1 <;> decide
  | case5 b0 =>
    simp only [List.getLast?_singleton, Option.some.injEq] at h
    subst h
    cases b0 <;> decide
  | case6 => simp at h

theorem paddingOk_bytesToFes (p : List Nat) : paddingOk (bytesToFes p) = true := by
  unfold paddingOk
  split
  · rfl
  · rename_i last hl
    have h1 := groups5_last _ _ hl
    have h2 := bytesToFes_length p
    rw [flatMap_byteBits_length] at h1
    simp only [Bool.and_eq_true, decide_eq_true_eq, beq_iff_eq]
    have h3 : (bytesToFes p).length * 5 % 8 = padOf (8 * p.length) := by
      rw [h2]; unfold padOf
      have h1 : (8 * p.length + 4) / 5 * 5 = 8 * p.length + (5 - 8 * p.length % 5) % 5 := by omega
      have h2 : (5 - 8 * p.length % 5) % 5 ≤ 4 := by omega
      rw [h1]
      generalize (5 - 8 * p.length % 5) % 5 = k at h2
      omega
    rw [h3]
    exact ⟨by unfold padOf; omega, h1⟩

/-! ## Regrouping bits: `bytes_to_fes ∘ fes_to_bytes` -/


theorem fe5_fe5Bits : ∀ d < 32, fe5 (d / 16 % 2 == 1) (d / 8 % 2 == 1) (d / 4 % 2 == 1)
    (d / 2 % 2 == 1) (d % 2 == 1) = d := by decide

theorem fesBits_length (fes : List Nat) : (fesBits fes).length = 5 * fes.length := by
  induction fes with
  | nil => rfl
  | cons d fes ih => simp [fesBits, List.flatMap_cons, fe5Bits] at ih ⊢; omega

theorem groups5_fesBits (fes : List Nat) (h : ∀ d ∈ fes, d < 32) : groups5 (fesBits fes) = fes := by
  induction fes with
  | nil => rfl
  | cons d fes ih =>
    simp only [fesBits, List.flatMap_cons, fe5Bits, List.cons_append, List.nil_append, groups5]
    rw [fe5_fe5Bits d (h d List.mem_cons_self)]
    congr 1
    exact ih (fun x hx => h x (List.mem_cons_of_mem _ hx))

theorem groups5_append_pad (B : List Bool) :
    groups5 (B ++ List.replicate (padOf B.length) false) = groups5 B := by
  fun_induction groups5 B with
  | case1 b0 b1 b2 b3 b4 rest ih =>
    have : padOf (b0 :: b1 :: b2 :: b3 :: b4 :: rest).length = padOf rest.length := by
      simp only [List.length_cons]; unfold padOf; omega
    rw [this]
    simp only [List.cons_append, groups5, ih]
  | case2 b0 b1 b2 b3 => simp [padOf, groups5]
  | case3 b0 b1 b2 => simp [padOf, groups5, List.replicate]
  | case4 b0 b1 => simp [padOf, groups5, List.replicate]
  | case5 b0 => simp [padOf, groups5, List.replicate]
  | case6 => simp [padOf, groups5]

theorem byteBits_byteOfBits (b0 b1 b2 b3 b4 b5 b6 b7 : Bool) :
    byteBits (byteOfBits b0 b1 b2 b3 b4 b5 b6 b7) = [b0, b1, b2, b3, b4, b5, b6, b7] := by
  cases b0 <;> cases b1 <;> cases b2 <;> cases b3 <;> cases b4 <;> cases b5 <;> cases b6 <;>
    cases b7 <;> rfl

theorem byteOfBits_lt (b0 b1 b2 b3 b4 b5 b6 b7 : Bool) :
    byteOfBits b0 b1 b2 b3 b4 b5 b6 b7 < 256 := by
  cases b0 <;> cases b1 <;> cases b2 <;> cases b3 <;> cases b4 <;> cases b5 <;> cases b6 <;>
    cases b7 <;> decide

theorem groups8_allBytes (bits : List Bool) : AllBytes (groups8 bits) := by
  fun_induction groups8 bits with
  | case1 b0 b1 b2 b3 b4 b5 b6 b7 rest ih => exact allBytes_cons.2 ⟨byteOfBits_lt .., ih⟩
  | case2 => exact allBytes_nil

theorem flatMap_byteBits_groups8 (bits : List Bool) :
    (groups8 bits).flatMap byteBits = bits.take (8 * (bits.length / 8)) := by
  fun_induction groups8 bits with
  | case1 b0 b1 b2 b3 b4 b5 b6 b7 rest ih =>
    rw [List.flatMap_cons, byteBits_byteOfBits, ih]
    have : 8 * ((b0 :: b1 :: b2 :: b3 :: b4 :: b5 :: b6 :: b7 :: rest).length / 8) =
        8 * (rest.length / 8) + 8 := by
      simp only [List.length_cons]; omega
    rw [this]
    simp [List.take_succ_cons]
  | case2 bits hne =>
    have hl : bits.length < 8 := by
      match bits, hne with
      | [], _ => simp
      | [_], _ => simp
      | [_, _], _ => simp
      | [_, _, _], _ => simp
      | [_, _, _, _], _ => simp
      | [_, _, _, _, _], _ => simp
      | [_, _, _, _, _, _], _ => simp
      | [_, _, _, _, _, _, _], _ => simp
      | b0 :: b1 :: b2 :: b3 :: b4 :: b5 :: b6 :: b7 :: rest, hne =>
        exact absurd rfl (hne b0 b1 b2 b3 b4 b5 b6 b7 rest)
    have : bits.length / 8 = 0 := by omega
    simp [this]

theorem fe5Bits_drop : ∀ last < 32, ∀ r ≤ 4, last % 2 ^ r = 0 →
    (fe5Bits last).drop (5 - r) = List.replicate r false := by decide

/-- `bytes_to_fes ∘ fes_to_bytes = id` on correctly padded data. -/
theorem bytesToFes_fesToBytes (fes : List Nat) (h32 : ∀ d ∈ fes, d < 32)
    (hpad : paddingOk fes = true) : bytesToFes (fesToBytes fes) = fes := by
  unfold bytesToFes fesToBytes
  rw [flatMap_byteBits_groups8]
  change groups5 ((fesBits fes).take (8 * ((fesBits fes).length / 8))) = fes
  rw [fesBits_length]
  unfold paddingOk at hpad
  cases hl : fes.getLast? with
  | none =>
    have : fes = [] := List.getLast?_eq_none_iff.1 hl
    subst this; rfl
  | some last =>
    rw [hl] at hpad
    simp only [Bool.and_eq_true, decide_eq_true_eq, beq_iff_eq] at hpad
    obtain ⟨hr, hz⟩ := hpad
    obtain ⟨ys, rfl⟩ := List.getLast?_eq_some_iff.1 hl
    have hlast : last < 32 := h32 last (by simp)
    generalize hbits : fesBits (ys ++ [last]) = bits
    have hlen : bits.length = 5 * (ys.length + 1) := by
      rw [← hbits, fesBits_length]; simp
    simp only [List.length_append, List.length_cons, List.length_nil, Nat.zero_add] at hr hz ⊢
    generalize hq : 5 * (ys.length + 1) / 8 = q
    generalize hrr : (ys.length + 1) * 5 % 8 = r at hr hz
    have hqr : 8 * q + r = 5 * (ys.length + 1) := by omega
    have hdrop : bits.drop (8 * q) = List.replicate r false := by
      rw [← hbits]
      unfold fesBits
      rw [List.flatMap_append]
      have h1 : 8 * q = (List.flatMap fe5Bits ys).length + (5 - r) := by
        have := fesBits_length ys
        unfold fesBits at this
        rw [this]; omega
      rw [h1, List.drop_append, List.drop_of_length_le (by omega), Nat.add_sub_cancel_left,
        List.nil_append]
      simp only [List.flatMap_cons, List.flatMap_nil, List.append_nil]
      exact fe5Bits_drop last hlast r hr hz
    have htake : (bits.take (8 * q)).length = 8 * q := by
      rw [List.length_take]; omega
    have hpadq : padOf (bits.take (8 * q)).length = r := by
      rw [htake]; unfold padOf; omega
    rw [← groups5_append_pad (bits.take (8 * q)), hpadq, ← hdrop, List.take_append_drop, ← hbits]
    exact groups5_fesBits _ h32

end Btc.AddrParse
