import BtcModel.Model.Tree
import BtcModel.Spec.Ledger

/-! Helper lemmas for C02: `main_chain_by_difficulty` = first maximal root-to-leaf path. -/
namespace Btc
open Tree Spec

variable {α : Type}

def sumD (d : α → Nat) (p : List α) : Nat := (p.map d).foldl (· + ·) 0

theorem foldl_add_init (l : List Nat) (a : Nat) : l.foldl (· + ·) a = a + l.foldl (· + ·) 0 := by
  induction l generalizing a with
  | nil => simp
  | cons x xs ih => simp only [List.foldl_cons]; rw [ih (a + x), ih (0 + x)]; omega

theorem sumD_cons (d : α → Nat) (r : α) (p : List α) : sumD d (r :: p) = d r + sumD d p := by
  unfold sumD
  simp only [List.map_cons, List.foldl_cons]
  rw [foldl_add_init]; omega

theorem pathKey_eq (d : α → Nat) (p : List α) : pathKey d p = (sumD d p, p.length) := rfl

/-- `better p q`: path `p` has a strictly greater (difficulty, length) key than `q`. -/
def better (d : α → Nat) (p q : List α) : Bool := keyGt (pathKey d p) (pathKey d q)

theorem better_iff (d : α → Nat) (p q : List α) :
    better d p q = true ↔
      (sumD d p > sumD d q ∨ (sumD d p = sumD d q ∧ p.length > q.length)) := by
  unfold better keyGt
  simp [pathKey_eq]

theorem better_cons (d : α → Nat) (r : α) (p q : List α) :
    better d (r :: p) (r :: q) = better d p q := by
  have h1 := better_iff d (r :: p) (r :: q)
  have h2 := better_iff d p q
  simp only [sumD_cons, List.length_cons] at h1
  cases hb : better d p q <;> cases hb' : better d (r :: p) (r :: q) <;> simp_all <;> omega

theorem better_nil_right (d : α → Nat) (p : List α) (hp : p ≠ []) : better d p [] = true := by
  rw [better_iff]
  cases p with
  | nil => exact absurd rfl hp
  | cons x xs =>
    simp only [sumD_cons, List.length_cons]
    have : sumD d ([] : List α) = 0 := rfl
    rw [this]
    simp
    omega

theorem not_better_nil_left (d : α → Nat) (q : List α) : better d [] q = false := by
  cases h : better d [] q
  · rfl
  · rw [better_iff] at h
    have : sumD d ([] : List α) = 0 := rfl
    simp [this] at h

theorem firstMax_cons (d : α → Nat) (p : List α) (ps : List (List α)) (acc : List α) :
    firstMax d (p :: ps) acc = if better d p acc then firstMax d ps p else firstMax d ps acc := rfl

theorem firstMax_append (d : α → Nat) (A B : List (List α)) (acc : List α) :
    firstMax d (A ++ B) acc = firstMax d B (firstMax d A acc) := by
  induction A generalizing acc with
  | nil => rfl
  | cons p ps ih =>
    simp only [List.cons_append, firstMax_cons]
    split <;> exact ih _

/-- Starting the scan from an accumulator gives the list's own first maximum if that beats the
    accumulator, and the accumulator otherwise. -/
theorem firstMax_acc (d : α → Nat) (L : List (List α)) (acc : List α) :
    firstMax d L acc =
      if better d (firstMax d L []) acc then firstMax d L [] else acc := by
  induction L generalizing acc with
  | nil =>
    simp [firstMax, not_better_nil_left]
  | cons p ps ih =>
    have bpa := better_iff d p acc
    have bMp := better_iff d (firstMax d ps []) p
    have bMa := better_iff d (firstMax d ps []) acc
    by_cases h4 : better d p [] = true
    · have hm : firstMax d (p :: ps) [] = firstMax d ps p := by rw [firstMax_cons, if_pos h4]
      rw [hm, firstMax_cons, ih p, ih acc]
      by_cases h1 : better d p acc = true <;> by_cases h2 : better d (firstMax d ps []) p = true <;>
        by_cases h3 : better d (firstMax d ps []) acc = true <;>
        simp only [h1, h2, h3, if_true, if_false, Bool.false_eq_true] <;>
        (try rfl) <;> (exfalso; simp only [bpa, bMp, bMa] at h1 h2 h3; omega)
    · -- p does not beat the empty path: p is empty, so it beats nothing
      have hp : p = [] := by
        cases p with
        | nil => rfl
        | cons x xs => exact absurd (better_nil_right d (x :: xs) (by simp)) h4
      subst hp
      have hm : firstMax d ([] :: ps) [] = firstMax d ps [] := by rw [firstMax_cons, if_neg h4]
      rw [hm, firstMax_cons, not_better_nil_left d acc]
      simp only [Bool.false_eq_true, if_false]
      exact ih acc

theorem firstMax_map_cons (d : α → Nat) (r : α) (L : List (List α)) (acc : List α) :
    firstMax d (L.map (fun p => r :: p)) (r :: acc) = r :: firstMax d L acc := by
  induction L generalizing acc with
  | nil => rfl
  | cons p ps ih =>
    simp only [List.map_cons, firstMax_cons, better_cons]
    split <;> exact ih _

mutual
theorem paths_ne_nil : ∀ (t : Tree α), paths t ≠ []
  | .node r [] => by simp [paths]
  | .node r (c :: cs) => by
    simp only [paths]
    intro h
    have := pathsList_ne_nil c cs
    simp_all
theorem pathsList_ne_nil : ∀ (c : Tree α) (cs : List (Tree α)), pathsList (c :: cs) ≠ []
  | c, cs => by
    simp only [pathsList]
    intro h
    have := paths_ne_nil c
    simp_all
end

mutual
theorem paths_all_ne_nil : ∀ (t : Tree α), ∀ p ∈ paths t, p ≠ []
  | .node r [] => by simp [paths]
  | .node r (c :: cs) => by
    simp only [paths]
    intro p hp
    simp at hp
    obtain ⟨q, _, rfl⟩ := hp
    simp
theorem pathsList_all_ne_nil : ∀ (cs : List (Tree α)), ∀ p ∈ pathsList cs, p ≠ []
  | [] => by simp [pathsList]
  | c :: cs => by
    simp only [pathsList]
    intro p hp
    rcases List.mem_append.mp hp with h | h
    · exact paths_all_ne_nil c p h
    · exact pathsList_all_ne_nil cs p h
end

/-- first maximum of a non-empty list of non-empty paths is non-empty -/
theorem firstMax_ne_nil (d : α → Nat) (L : List (List α)) (hL : L ≠ []) (hne : ∀ p ∈ L, p ≠ [])
    : firstMax d L [] ≠ [] := by
  cases L with
  | nil => exact absurd rfl hL
  | cons p ps =>
    rw [firstMax_cons, better_nil_right d p (hne p (List.mem_cons_self))]
    simp only [if_true]
    rw [firstMax_acc]
    split
    · rename_i h
      intro hn
      rw [hn, not_better_nil_left] at h
      exact Bool.false_ne_true h
    · exact hne p (List.mem_cons_self)

/-- the triple returned by the code's inner function, for a given chain -/
def tripleOf (d : α → Nat) (p : List α) : Nat × Nat × List α := (sumD d p, p.length, p)

theorem bestPath_node (d : α → Nat) (r : α) (cs : List (Tree α)) :
    bestPath d (.node r cs) = r :: firstMax d (pathsList cs) [] := by
  cases cs with
  | nil => simp [bestPath, paths, pathsList, firstMax, pathKey, keyGt]
  | cons c cs' =>
    unfold bestPath
    simp only [paths]
    -- the first path beats the empty accumulator
    have hne := pathsList_ne_nil c cs'
    cases hL : pathsList (c :: cs') with
    | nil => exact absurd hL hne
    | cons p0 L' =>
      have hp0 : p0 ≠ [] := pathsList_all_ne_nil (c :: cs') p0 (by rw [hL]; exact List.mem_cons_self)
      simp only [List.map_cons, firstMax_cons]
      rw [better_nil_right d (r :: p0) (by simp), better_nil_right d p0 hp0]
      simp only [if_true]
      exact firstMax_map_cons d r L' p0

mutual
theorem mainChainInner_eq : ∀ (d : α → Nat) (t : Tree α),
    mainChainInner d t = tripleOf d (bestPath d t)
  | d, .node r cs => by
    have h := bestChild_eq d cs []
    simp only [mainChainInner]
    rw [bestPath_node]
    have h0 : ((0 : Nat), (0 : Nat), ([] : List α)) = tripleOf d [] := rfl
    rw [h0, h]
    simp [tripleOf, sumD_cons]
    omega
theorem bestChild_eq : ∀ (d : α → Nat) (cs : List (Tree α)) (acc : List α),
    bestChild d cs (tripleOf d acc) = tripleOf d (firstMax d (pathsList cs) acc)
  | d, [], acc => by simp [bestChild, pathsList, firstMax]
  | d, c :: cs, acc => by
    simp only [bestChild, pathsList, firstMax_append]
    rw [mainChainInner_eq d c]
    have hk : keyGt ((tripleOf d (bestPath d c)).1, (tripleOf d (bestPath d c)).2.1)
        ((tripleOf d acc).1, (tripleOf d acc).2.1) = better d (bestPath d c) acc := rfl
    rw [hk]
    rw [firstMax_acc d (paths c) acc]
    have hb : bestPath d c = firstMax d (paths c) [] := rfl
    rw [← hb]
    split
    · exact bestChild_eq d cs _
    · exact bestChild_eq d cs _
end

mutual
theorem mainChainLenInner_eq : ∀ (d : α → Nat) (t : Tree α),
    mainChainLenInner d t = ((mainChainInner d t).1, (mainChainInner d t).2.1)
  | d, .node r cs => by
    simp only [mainChainLenInner, mainChainInner]
    rw [bestChildLen_eq d cs (0, 0, [])]
theorem bestChildLen_eq : ∀ (d : α → Nat) (cs : List (Tree α)) (acc : Nat × Nat × List α),
    bestChildLen d cs (acc.1, acc.2.1) = ((bestChild d cs acc).1, (bestChild d cs acc).2.1)
  | d, [], acc => by simp [bestChildLen, bestChild]
  | d, c :: cs, acc => by
    simp only [bestChildLen, bestChild]
    rw [mainChainLenInner_eq d c]
    split
    · exact bestChildLen_eq d cs _
    · exact bestChildLen_eq d cs acc
end

end Btc
