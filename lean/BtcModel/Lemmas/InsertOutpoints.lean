import BtcModel.Lemmas.AList
import BtcModel.Spec.Invariant

/-!
  Correctness of `insertOutpoints` (`unstable_blocks/outpoints_cache.rs::insert_outpoints`)
  against the history-level specifications of `Spec/Invariant.lean`:
  `addedSpec`, `removedSpec`, `outAt`, and reference counts (`blockRefs`).

  Finite maps are compared pointwise through `AList.find?`.
-/
namespace Btc.InsertOutpoints
open Btc Spec

/-! ### More association-list facts -/

section AListExtra
variable {κ ν : Type} [BEq κ] [LawfulBEq κ]
set_option linter.unusedSectionVars false

theorem find?_append (m n : List (κ × ν)) (k : κ) :
    AList.find? (m ++ n) k = (AList.find? m k).or (AList.find? n k) := by
  induction m with
  | nil => simp
  | cons p ps ih =>
    obtain ⟨k', v⟩ := p
    simp only [List.cons_append, AList.find?_cons]
    split <;> simp [ih]

/-- updating the values stored under one key with `map` -/
theorem find?_map_update (m : List (κ × ν)) (a : κ) (g : ν → ν) (k : κ) :
    AList.find? (m.map (fun p => if p.1 == a then (p.1, g p.2) else p)) k =
      if a == k then (AList.find? m k).map g else AList.find? m k := by
  induction m with
  | nil => simp
  | cons p ps ih =>
    obtain ⟨k', v⟩ := p
    simp only [List.map_cons]
    by_cases h1 : k' = a
    · subst h1
      simp only [beq_self_eq_true, if_true, AList.find?_cons]
      by_cases h2 : k' = k
      · simp [h2]
      · have : (k' == k) = false := by simp [h2]
        simp only [this, Bool.false_eq_true, if_false, ih]
    · have h1' : (k' == a) = false := by simp [h1]
      simp only [h1', Bool.false_eq_true, if_false, AList.find?_cons, ih]
      by_cases h2 : k' = k
      · subst h2
        simp [Ne.symm h1]
      · have : (k' == k) = false := by simp [h2]
        simp [this]

theorem keys_map_update (m : List (κ × ν)) (a : κ) (g : ν → ν) :
    (m.map (fun p => if p.1 == a then (p.1, g p.2) else p)).map (·.1) = m.map (·.1) := by
  induction m with
  | nil => rfl
  | cons p ps ih =>
    simp only [List.map_cons, ih]
    split <;> rfl

end AListExtra

/-! ### `pushUnder` -/

/-- the list stored under a key, empty if absent -/
def getL (m : List (Addr × List OutPoint)) (a : Addr) : List OutPoint := (AList.find? m a).getD []

theorem getL_pushUnder (m : List (Addr × List OutPoint)) (a : Addr) (o : OutPoint) (a' : Addr) :
    getL (pushUnder m a o) a' = getL m a' ++ (if a = a' then [o] else []) := by
  unfold pushUnder getL
  cases hf : AList.find? m a with
  | none =>
    simp only [find?_append, AList.find?_cons, AList.find?_nil]
    by_cases h : a = a'
    · subst h
      simp [hf]
    · have : (a == a') = false := by simp [h]
      simp [this, h]
  | some l =>
    simp only
    rw [find?_map_update m a (fun _ => l ++ [o]) a']
    by_cases h : a = a'
    · subst h
      simp [hf]
    · simp [h]

theorem getL_nil (a : Addr) : getL [] a = [] := rfl

/-! ### `bumpLocal`: the block-local reference counts -/

/-- A (block-local or cache) outpoint map is exact for a list of references `refs` (in history
    `hist`): an entry exists iff the outpoint occurs in `refs`, its count is the number of
    occurrences, and its content is the output the history designates. -/
structure LocalOk (hist : List Block) (m : List (OutPoint × TxOutInfo)) (refs : List OutPoint) :
    Prop where
  nodup : (m.map (·.1)).Nodup
  none_ok : ∀ o, AList.find? m o = none → refs.count o = 0
  some_ok : ∀ o i, AList.find? m o = some i →
    i.count = refs.count o ∧ 0 < i.count ∧ outAt hist o = some i.txout

theorem find?_bumpLocal (m : List (OutPoint × TxOutInfo)) (o : OutPoint) (t : TxOut) (h : Nat)
    (o' : OutPoint) :
    AList.find? (bumpLocal m o t h) o' =
      if o = o' then
        some (match AList.find? m o with
          | none => ⟨t, h, 1⟩
          | some i => { i with count := i.count + 1 })
      else AList.find? m o' := by
  unfold bumpLocal
  cases hf : AList.find? m o with
  | none =>
    simp only [find?_append, AList.find?_cons, AList.find?_nil]
    by_cases h' : o = o'
    · subst h'
      simp [hf]
    · have : (o == o') = false := by simp [h']
      simp [this, h']
  | some i =>
    simp only
    rw [find?_map_update m o (fun v => { v with count := v.count + 1 }) o']
    by_cases h' : o = o'
    · subst h'
      simp [hf]
    · simp [h']

theorem keys_bumpLocal_nodup (m : List (OutPoint × TxOutInfo)) (o : OutPoint) (t : TxOut) (h : Nat)
    (hn : (m.map (·.1)).Nodup) : ((bumpLocal m o t h).map (·.1)).Nodup := by
  unfold bumpLocal
  cases hf : AList.find? m o with
  | none =>
    simp only [List.map_append, List.map_cons, List.map_nil]
    rw [List.nodup_append]
    refine ⟨hn, by simp, ?_⟩
    intro a ha b hb
    simp only [List.mem_singleton] at hb
    subst hb
    intro e
    subst e
    exact (AList.find?_eq_none_iff m a).mp hf ha
  | some i =>
    simp only
    rw [keys_map_update m o (fun v => { v with count := v.count + 1 })]
    exact hn

theorem LocalOk.nil (hist : List Block) : LocalOk hist [] [] :=
  ⟨by simp, by simp, by simp⟩

theorem LocalOk.bump {hist : List Block} {m : List (OutPoint × TxOutInfo)} {refs : List OutPoint}
    (hm : LocalOk hist m refs) (o : OutPoint) (t : TxOut) (h : Nat)
    (ho : outAt hist o = some t) : LocalOk hist (bumpLocal m o t h) (refs ++ [o]) := by
  refine ⟨keys_bumpLocal_nodup m o t h hm.nodup, ?_, ?_⟩
  · intro o' hf
    rw [find?_bumpLocal] at hf
    by_cases h' : o = o'
    · simp [h'] at hf
    · simp only [h', if_false] at hf
      have := hm.none_ok o' hf
      simp [List.count_append, this, h']
  · intro o' i hf
    rw [find?_bumpLocal] at hf
    by_cases h' : o = o'
    · subst h'
      simp only [if_true, Option.some.injEq] at hf
      cases hfo : AList.find? m o with
      | none =>
        rw [hfo] at hf
        subst hf
        have := hm.none_ok o hfo
        simp [List.count_append, this, ho]
      | some i0 =>
        rw [hfo] at hf
        subst hf
        obtain ⟨h1, h2, h3⟩ := hm.some_ok o i0 hfo
        simp [List.count_append, ← h1, h3]
    · simp only [h', if_false] at hf
      obtain ⟨h1, h2, h3⟩ := hm.some_ok o' i hf
      refine ⟨?_, h2, h3⟩
      simp [List.count_append, h1, h']

/-- a reference list may be rewritten -/
theorem LocalOk.congr {hist : List Block} {m : List (OutPoint × TxOutInfo)} {refs refs' : List OutPoint}
    (hm : LocalOk hist m refs) (e : refs = refs') : LocalOk hist m refs' := e ▸ hm

theorem LocalOk.isSome_iff {hist : List Block} {m : List (OutPoint × TxOutInfo)} {refs : List OutPoint}
    (hm : LocalOk hist m refs) (o : OutPoint) : (AList.find? m o).isSome = true ↔ 0 < refs.count o := by
  cases hf : AList.find? m o with
  | none => simp [hm.none_ok o hf]
  | some i =>
    obtain ⟨h1, h2, _⟩ := hm.some_ok o i hf
    simp only [Option.isSome_some, true_iff]
    omega

/-! ### `mergeLocal` -/

theorem find?_mergeLocal (L : List (OutPoint × TxOutInfo)) :
    ∀ (txOuts : List (OutPoint × TxOutInfo)), (L.map (·.1)).Nodup → ∀ (o : OutPoint),
    AList.find? (mergeLocal txOuts L) o =
      match AList.find? L o with
      | none => AList.find? txOuts o
      | some i => some (match AList.find? txOuts o with
          | some old => { old with count := old.count + i.count }
          | none => i) := by
  induction L with
  | nil => intro txOuts _ o; rfl
  | cons p rest ih =>
    obtain ⟨o1, i1⟩ := p
    intro txOuts hn o
    simp only [List.map_cons, List.nodup_cons] at hn
    simp only [mergeLocal]
    rw [ih _ hn.2 o, AList.find?_cons]
    by_cases h : o1 = o
    · subst h
      have hr : AList.find? rest o1 = none := (AList.find?_eq_none_iff rest o1).mpr hn.1
      simp only [hr, beq_self_eq_true, if_true]
      cases AList.find? txOuts o1 <;> simp [AList.find?_insert_self]
    · have hb : (o1 == o) = false := by simp [h]
      simp only [hb, Bool.false_eq_true, if_false]
      have he : ∀ v, AList.find? (AList.insert txOuts o1 v) o = AList.find? txOuts o :=
        fun v => AList.find?_insert_ne txOuts o1 o v h
      cases AList.find? txOuts o1 <;> simp only [he]

theorem nodup_mergeLocal (L : List (OutPoint × TxOutInfo)) :
    ∀ (txOuts : List (OutPoint × TxOutInfo)), (txOuts.map (·.1)).Nodup →
      ((mergeLocal txOuts L).map (·.1)).Nodup := by
  induction L with
  | nil => intro txOuts h; exact h
  | cons p rest ih =>
    obtain ⟨o1, i1⟩ := p
    intro txOuts hn
    simp only [mergeLocal]
    apply ih
    cases AList.find? txOuts o1 <;> exact AList.nodup_keys_insert _ _ _ hn

/-- Merging exact local counts into an exact cache gives an exact cache for the sum of the
    counts. `cnt` is the reference count before (`refCount` of the tree). -/
theorem mergeLocal_ok {hist : List Block} {txOuts L : List (OutPoint × TxOutInfo)}
    {cnt : OutPoint → Nat} {refs : List OutPoint}
    (hn : (txOuts.map (·.1)).Nodup)
    (hnone : ∀ o, AList.find? txOuts o = none → cnt o = 0)
    (hsome : ∀ o i, AList.find? txOuts o = some i →
      cnt o = i.count ∧ 0 < i.count ∧ outAt hist o = some i.txout)
    (hL : LocalOk hist L refs) :
    ((mergeLocal txOuts L).map (·.1)).Nodup ∧
    (∀ o, AList.find? (mergeLocal txOuts L) o = none → cnt o + refs.count o = 0) ∧
    (∀ o i, AList.find? (mergeLocal txOuts L) o = some i →
      cnt o + refs.count o = i.count ∧ 0 < i.count ∧ outAt hist o = some i.txout) := by
  refine ⟨nodup_mergeLocal L txOuts hn, ?_, ?_⟩
  · intro o hf
    rw [find?_mergeLocal L txOuts hL.nodup o] at hf
    cases hl : AList.find? L o with
    | none =>
      rw [hl] at hf
      simp only at hf
      rw [hnone o hf, hL.none_ok o hl]
    | some i => rw [hl] at hf; simp at hf
  · intro o i hf
    rw [find?_mergeLocal L txOuts hL.nodup o] at hf
    cases hl : AList.find? L o with
    | none =>
      rw [hl] at hf
      simp only at hf
      obtain ⟨h1, h2, h3⟩ := hsome o i hf
      exact ⟨by rw [h1, hL.none_ok o hl]; rfl, h2, h3⟩
    | some il =>
      rw [hl] at hf
      simp only [Option.some.injEq] at hf
      obtain ⟨l1, l2, l3⟩ := hL.some_ok o il hl
      cases hc : AList.find? txOuts o with
      | none =>
        rw [hc] at hf
        simp only at hf
        subst hf
        exact ⟨by rw [hnone o hc, l1]; omega, l2, l3⟩
      | some old =>
        rw [hc] at hf
        simp only at hf
        subst hf
        obtain ⟨h1, h2, h3⟩ := hsome o old hc
        exact ⟨by simp only; rw [h1, l1], by simp only; omega, h3⟩


/-! ### History-level facts: `txsOf`, `outAt`, `TxidsConsistent` -/

theorem mem_txsOf (bs : List Block) (tx : Tx) : tx ∈ txsOf bs ↔ ∃ b ∈ bs, tx ∈ b.txs := by
  unfold txsOf
  simp [List.mem_flatMap]

theorem txsOf_append (a b : List Block) : txsOf (a ++ b) = txsOf a ++ txsOf b := by
  unfold txsOf
  simp

/-- only membership matters for `TxidsConsistent` -/
theorem TxidsConsistent.of_subset {bs bs' : List Block} (h : TxidsConsistent bs')
    (hsub : ∀ b ∈ bs, b ∈ bs') : TxidsConsistent bs := by
  intro t1 h1 t2 h2 e
  rw [mem_txsOf] at h1 h2
  obtain ⟨b1, hb1, m1⟩ := h1
  obtain ⟨b2, hb2, m2⟩ := h2
  exact h t1 ((mem_txsOf _ _).mpr ⟨b1, hsub b1 hb1, m1⟩) t2 ((mem_txsOf _ _).mpr ⟨b2, hsub b2 hb2, m2⟩) e

/-- with consistent transaction ids, `outAt` reads the output off any transaction of the history
    that has the outpoint's txid -/
theorem outAt_of_mem {hist : List Block} (htx : TxidsConsistent hist) {tx : Tx}
    (hm : tx ∈ txsOf hist) {o : OutPoint} (ho : tx.txid = o.txid) :
    outAt hist o = tx.outs[o.vout]? := by
  unfold outAt
  cases hf : (txsOf hist).find? (fun tx => tx.txid == o.txid) with
  | none =>
    have := List.find?_eq_none.mp hf tx hm
    simp [ho] at this
  | some tx' =>
    have h1 := List.find?_some hf
    have h2 := List.mem_of_find?_eq_some hf
    simp only [beq_iff_eq] at h1
    have : tx' = tx := htx tx' h2 tx hm (by rw [h1, ho])
    rw [this]

theorem outAt_some {hist : List Block} {o : OutPoint} {t : TxOut} (h : outAt hist o = some t) :
    ∃ tx ∈ txsOf hist, tx.txid = o.txid ∧ tx.outs[o.vout]? = some t := by
  unfold outAt at h
  cases hf : (txsOf hist).find? (fun tx => tx.txid == o.txid) with
  | none => rw [hf] at h; simp at h
  | some tx' =>
    rw [hf] at h
    have h1 := List.find?_some hf
    simp only [beq_iff_eq] at h1
    exact ⟨tx', List.mem_of_find?_eq_some hf, h1, h⟩

/-- `outAt` is monotone in the history (as a set of blocks), for consistent txids. -/
theorem outAt_mono {hist hist' : List Block} (htx' : TxidsConsistent hist')
    (hsub : ∀ b ∈ hist, b ∈ hist') {o : OutPoint} {t : TxOut} (h : outAt hist o = some t) :
    outAt hist' o = some t := by
  obtain ⟨tx, hm, h1, h2⟩ := outAt_some h
  rw [mem_txsOf] at hm
  obtain ⟨b, hb, hmb⟩ := hm
  rw [outAt_of_mem htx' ((mem_txsOf _ _).mpr ⟨b, hsub b hb, hmb⟩) h1, h2]

/-- the outputs of a transaction of the history are what `outAt` designates -/
theorem outAt_created {hist : List Block} (htx : TxidsConsistent hist) {tx : Tx}
    (hm : tx ∈ txsOf hist) (j : Nat) (hj : j < tx.outs.length) :
    outAt hist ⟨tx.txid, j⟩ = some tx.outs[j] := by
  rw [outAt_of_mem htx hm rfl]
  simp [hj]

theorem eq_of_nodup_map {β γ : Type} (f : β → γ) : ∀ (l : List β), (l.map f).Nodup →
    ∀ a ∈ l, ∀ b ∈ l, f a = f b → a = b := by
  intro l
  induction l with
  | nil => intro _ a ha; simp at ha
  | cons x xs ih =>
    intro hn a ha b hb e
    simp only [List.map_cons, List.nodup_cons, List.mem_map, not_exists, not_and] at hn
    rcases List.mem_cons.mp ha with rfl | ha' <;> rcases List.mem_cons.mp hb with rfl | hb'
    · rfl
    · exact absurd e.symm (hn.1 b hb')
    · exact absurd e (hn.1 a ha')
    · exact ih hn.2 a ha' b hb' e

/-- txids within a well-formed block are consistent -/
theorem txidsConsistent_single {b : Block} (hwf : BlockWF b) : TxidsConsistent [b] := by
  intro t1 h1 t2 h2 e
  simp only [txsOf, List.flatMap_cons, List.flatMap_nil, List.append_nil] at h1 h2
  exact eq_of_nodup_map (·.txid) b.txs hwf.txidsNodup t1 h1 t2 h2 e

/-! ### Ledger facts -/

theorem mem_zip_range {β : Type} (l : List β) (p : Nat × β) (hp : p ∈ (List.range l.length).zip l) :
    l[p.1]? = some p.2 := by
  obtain ⟨i, hi, e⟩ := List.mem_iff_getElem.mp hp
  simp only [List.getElem_zip, List.getElem_range] at e
  subst e
  simp only [List.length_zip, List.length_range, Nat.min_self] at hi
  simp [hi]

/-- every entry of the ledger after a transaction is an old entry or an output of that
    transaction -/
theorem mem_applyTx {l : LedgerMap} {h : Nat} {tx : Tx} {e : OutPoint × (TxOut × Nat)}
    (he : e ∈ applyTx l h tx) :
    e ∈ l ∨ (e.1.txid = tx.txid ∧ tx.outs[e.1.vout]? = some e.2.1) := by
  unfold applyTx at he
  simp only [List.mem_append, List.mem_filter, List.mem_filterMap] at he
  rcases he with ⟨⟨hl, _⟩, _⟩ | ⟨p, hp, hf⟩
  · exact Or.inl hl
  · right
    have := mem_zip_range tx.outs p hp
    split at hf
    · cases hf
    · simp only [Option.some.injEq] at hf
      subst hf
      exact ⟨rfl, this⟩

theorem mem_foldl_applyTx {h : Nat} (txs : List Tx) : ∀ {l : LedgerMap} {e : OutPoint × (TxOut × Nat)},
    e ∈ txs.foldl (fun acc tx => applyTx acc h tx) l →
    e ∈ l ∨ ∃ tx ∈ txs, e.1.txid = tx.txid ∧ tx.outs[e.1.vout]? = some e.2.1 := by
  induction txs with
  | nil => intro l e he; exact Or.inl he
  | cons tx txs ih =>
    intro l e he
    simp only [List.foldl_cons] at he
    rcases ih he with h1 | ⟨tx', hm, h2⟩
    · rcases mem_applyTx h1 with h3 | h3
      · exact Or.inl h3
      · exact Or.inr ⟨tx, by simp, h3⟩
    · exact Or.inr ⟨tx', by simp [hm], h2⟩

theorem mem_ledgerFrom (bs : List Block) : ∀ {l : LedgerMap} {h0 : Nat} {e : OutPoint × (TxOut × Nat)},
    e ∈ ledgerFrom l h0 bs →
    e ∈ l ∨ ∃ tx ∈ txsOf bs, e.1.txid = tx.txid ∧ tx.outs[e.1.vout]? = some e.2.1 := by
  induction bs with
  | nil => intro l h0 e he; exact Or.inl he
  | cons b bs ih =>
    intro l h0 e he
    simp only [ledgerFrom] at he
    rcases ih he with h1 | ⟨tx, hm, h2⟩
    · unfold applyBlock at h1
      rcases mem_foldl_applyTx b.txs h1 with h3 | ⟨tx, hm, h3⟩
      · exact Or.inl h3
      · exact Or.inr ⟨tx, (mem_txsOf _ _).mpr ⟨b, by simp, hm⟩, h3⟩
    · rw [mem_txsOf] at hm
      obtain ⟨b', hb', hm'⟩ := hm
      exact Or.inr ⟨tx, (mem_txsOf _ _).mpr ⟨b', by simp [hb'], hm'⟩, h2⟩

theorem ledgerFrom_append (a b : List Block) : ∀ (l : LedgerMap) (h0 : Nat),
    ledgerFrom l h0 (a ++ b) = ledgerFrom (ledgerFrom l h0 a) (h0 + a.length) b := by
  induction a with
  | nil => intro l h0; rfl
  | cons x xs ih =>
    intro l h0
    simp only [List.cons_append, ledgerFrom, ih, List.length_cons]
    congr 1
    omega

/-- **Ledger lemma**: an entry of the ledger of a chain with consistent txids holds the output
    that the chain designates for its outpoint. -/
theorem ledger_entry_outAt {G : List Block} (htx : TxidsConsistent G) {o : OutPoint} {t : TxOut}
    {h : Nat} (hf : AList.find? (ledger G) o = some (t, h)) : outAt G o = some t := by
  have hm := AList.mem_of_find? _ _ _ hf
  unfold ledger at hm
  rcases mem_ledgerFrom G hm with h1 | ⟨tx, hmt, h2, h3⟩
  · simp at h1
  · rw [outAt_of_mem htx hmt h2.symm]
    exact h3

/-! ### Splitting `TxValidFrom` -/

theorem txValidFrom_append (a b : List Block) : ∀ (l : LedgerMap) (h0 : Nat),
    TxValidFrom l h0 (a ++ b) ↔
      TxValidFrom l h0 a ∧ TxValidFrom (ledgerFrom l h0 a) (h0 + a.length) b := by
  induction a with
  | nil => intro l h0; simp [TxValidFrom, ledgerFrom]
  | cons x xs ih =>
    intro l h0
    simp only [List.cons_append, TxValidFrom, ledgerFrom, ih, List.length_cons]
    have : h0 + 1 + xs.length = h0 + (xs.length + 1) := by omega
    rw [this]
    constructor
    · rintro ⟨h1, h2, h3, h4, h5⟩; exact ⟨⟨h1, h2, h3, h4⟩, h5⟩
    · rintro ⟨⟨h1, h2, h3, h4⟩, h5⟩; exact ⟨h1, h2, h3, h4, h5⟩


/-! ### Looking up a referenced output: cache, block-local map, stable set -/

/-- the lookup performed for every input by `insert_outpoints` -/
def lookupOut (cache : OutPointsCache) (utxos : UtxoSet) (loc : List (OutPoint × TxOutInfo))
    (o : OutPoint) : Option (TxOut × Nat) :=
  match cache.getTxOut o with
  | some x => some x
  | none => match AList.find? loc o with
    | some e => some (e.txout, e.height)
    | none => utxos.getUtxo o

theorem insertInputs_cons (cache : OutPointsCache) (utxos : UtxoSet) (o : OutPoint)
    (os : List OutPoint) (acc : InsertAcc) (s : Nat) :
    insertInputs cache utxos (o :: os) acc s =
      match lookupOut cache utxos acc.local_ o with
      | none => none
      | some (t, h) =>
        insertInputs cache utxos os
          { acc with
            removed := (match t.addr with
              | some a => pushUnder acc.removed a o
              | none => acc.removed),
            local_ := bumpLocal acc.local_ o t h } (s + t.value) := rfl

/-- What the cache and the stable set hold is true in the history `hist`. -/
structure Sources (cache : OutPointsCache) (utxos : UtxoSet) (hist : List Block) : Prop where
  cacheTrue : ∀ o i, AList.find? cache.txOuts o = some i → outAt hist o = some i.txout
  stableTrue : ∀ o t h, utxos.getUtxo o = some (t, h) → outAt hist o = some t

/-- the outpoint can be resolved outside the block being processed -/
def Avail (cache : OutPointsCache) (utxos : UtxoSet) (o : OutPoint) : Prop :=
  (AList.find? cache.txOuts o).isSome = true ∨ (utxos.getUtxo o).isSome = true

/-- Each of the three sources returns the true output where it returns anything, and one of them
    does whenever the outpoint is available. -/
theorem lookupOut_ok {cache : OutPointsCache} {utxos : UtxoSet} {hist : List Block}
    (hsrc : Sources cache utxos hist) {loc : List (OutPoint × TxOutInfo)} {refs : List OutPoint}
    (hloc : LocalOk hist loc refs) (o : OutPoint)
    (hav : Avail cache utxos o ∨ 0 < refs.count o) :
    ∃ t h, lookupOut cache utxos loc o = some (t, h) ∧ outAt hist o = some t := by
  unfold lookupOut OutPointsCache.getTxOut
  cases hc : AList.find? cache.txOuts o with
  | some i => exact ⟨i.txout, i.height, rfl, hsrc.cacheTrue o i hc⟩
  | none =>
    simp only [Option.map_none]
    cases hl : AList.find? loc o with
    | some e => exact ⟨e.txout, e.height, rfl, (hloc.some_ok o e hl).2.2⟩
    | none =>
      simp only
      cases hs : utxos.getUtxo o with
      | some v => exact ⟨v.1, v.2, rfl, hsrc.stableTrue o v.1 v.2 hs⟩
      | none =>
        exfalso
        have := hloc.none_ok o hl
        rcases hav with (h1 | h1) | h1
        · simp [hc] at h1
        · simp [hs] at h1
        · omega

/-! ### Inputs of one transaction -/

/-- sum of the values of the outputs designated by a list of outpoints -/
def inSum (hist : List Block) (ins : List OutPoint) : Nat :=
  (ins.map (fun o => ((outAt hist o).map (·.value)).getD 0)).sum

/-- the inputs (of a list) that spend an output paying `a` -/
def removedOf (hist : List Block) (a : Addr) (ins : List OutPoint) : List OutPoint :=
  ins.filter (fun o => ((outAt hist o).bind (·.addr)) == some a)

theorem insertInputs_spec {cache : OutPointsCache} {utxos : UtxoSet} {hist : List Block}
    (hsrc : Sources cache utxos hist) :
    ∀ (ins : List OutPoint) (acc : InsertAcc) (s : Nat) (refs : List OutPoint),
      LocalOk hist acc.local_ refs →
      (∀ o ∈ ins, Avail cache utxos o ∨ 0 < refs.count o) →
      ∃ acc', insertInputs cache utxos ins acc s = some (acc', s + inSum hist ins) ∧
        LocalOk hist acc'.local_ (refs ++ ins) ∧
        acc'.added = acc.added ∧ acc'.utxoDelta = acc.utxoDelta ∧ acc'.feeRates = acc.feeRates ∧
        ∀ a, getL acc'.removed a = getL acc.removed a ++ removedOf hist a ins := by
  intro ins
  induction ins with
  | nil =>
    intro acc s refs hloc _
    exact ⟨acc, by simp [insertInputs, inSum], by simpa using hloc, rfl, rfl, rfl,
      by simp [removedOf]⟩
  | cons o os ih =>
    intro acc s refs hloc hav
    obtain ⟨t, h, hlk, hout⟩ := lookupOut_ok hsrc hloc o (hav o (by simp))
    rw [insertInputs_cons, hlk]
    simp only
    have hloc' := hloc.bump o t h hout
    have hav' : ∀ o' ∈ os, Avail cache utxos o' ∨ 0 < (refs ++ [o]).count o' := by
      intro o' ho'
      rcases hav o' (by simp [ho']) with h1 | h1
      · exact Or.inl h1
      · right
        rw [List.count_append]
        omega
    obtain ⟨acc', e1, e2, e3, e4, e5, e6⟩ := ih
      { acc with
        removed := (match t.addr with
          | some a => pushUnder acc.removed a o
          | none => acc.removed),
        local_ := bumpLocal acc.local_ o t h } (s + t.value) (refs ++ [o]) hloc' hav'
    refine ⟨acc', ?_, ?_, e3, e4, e5, ?_⟩
    · rw [e1]
      simp only [inSum, List.map_cons, List.sum_cons, hout, Option.map_some, Option.getD_some]
      congr 2
      omega
    · exact e2.congr (by simp)
    · intro a
      rw [e6 a]
      simp only [removedOf, List.filter_cons, hout, Option.bind_some]
      cases ha : t.addr with
      | none => simp
      | some a0 =>
        simp only [getL_pushUnder]
        by_cases h' : a0 = a
        · simp [h']
        · simp [h']


/-! ### Outputs of one transaction -/

/-- the outputs of a list (numbered from `i`) that pay `a`, as outpoints of transaction `txid` -/
def addedFrom (a : Addr) (txid : Nat) (outs : List TxOut) (i : Nat) : List OutPoint :=
  ((List.range' i outs.length).zip outs).filterMap
    (fun p => if p.2.addr == some a then some ⟨txid, p.1⟩ else none)

/-- the outpoints `txid:i, txid:i+1, ..` of `n` outputs -/
def outRefs (txid : Nat) (i n : Nat) : List OutPoint := (List.range' i n).map (fun j => ⟨txid, j⟩)

theorem insertOutputsAcc_cons (txid height : Nat) (t : TxOut) (ts : List TxOut) (i : Nat)
    (acc : InsertAcc) :
    insertOutputsAcc txid height (t :: ts) i acc =
      insertOutputsAcc txid height ts (i + 1)
        { acc with
          added := (match t.addr with
            | some a => pushUnder acc.added a ⟨txid, i⟩
            | none => acc.added),
          local_ := bumpLocal acc.local_ ⟨txid, i⟩ t height } := rfl

theorem insertOutputsAcc_spec {hist : List Block} (txid height : Nat) :
    ∀ (outs : List TxOut) (i : Nat) (acc : InsertAcc) (refs : List OutPoint),
      LocalOk hist acc.local_ refs →
      (∀ j (hj : j < outs.length), outAt hist ⟨txid, i + j⟩ = some outs[j]) →
      LocalOk hist (insertOutputsAcc txid height outs i acc).local_ (refs ++ outRefs txid i outs.length) ∧
      (insertOutputsAcc txid height outs i acc).removed = acc.removed ∧
      (insertOutputsAcc txid height outs i acc).utxoDelta = acc.utxoDelta ∧
      (insertOutputsAcc txid height outs i acc).feeRates = acc.feeRates ∧
      ∀ a, getL (insertOutputsAcc txid height outs i acc).added a =
        getL acc.added a ++ addedFrom a txid outs i := by
  intro outs
  induction outs with
  | nil =>
    intro i acc refs hloc _
    exact ⟨by simpa [insertOutputsAcc, outRefs] using hloc, rfl, rfl, rfl,
      by simp [insertOutputsAcc, addedFrom]⟩
  | cons t ts ih =>
    intro i acc refs hloc hout
    rw [insertOutputsAcc_cons]
    have h0 : outAt hist ⟨txid, i⟩ = some t := hout 0 (by simp)
    have hloc' := hloc.bump ⟨txid, i⟩ t height h0
    have hout' : ∀ j (hj : j < ts.length), outAt hist ⟨txid, i + 1 + j⟩ = some ts[j] := by
      intro j hj
      have := hout (j + 1) (by simp; omega)
      simp only [List.getElem_cons_succ] at this
      rw [← this]
      congr 2
      omega
    obtain ⟨e1, e2, e3, e4, e5⟩ := ih (i + 1)
      { acc with
        added := (match t.addr with
          | some a => pushUnder acc.added a ⟨txid, i⟩
          | none => acc.added),
        local_ := bumpLocal acc.local_ ⟨txid, i⟩ t height } (refs ++ [⟨txid, i⟩]) hloc' hout'
    refine ⟨?_, e2, e3, e4, ?_⟩
    · exact e1.congr (by simp [outRefs, List.range'_succ])
    · intro a
      rw [e5 a]
      simp only [addedFrom, List.length_cons, List.range'_succ, List.zip_cons_cons,
        List.filterMap_cons]
      cases ha : t.addr with
      | none => simp
      | some a0 =>
        simp only [getL_pushUnder]
        by_cases h' : a0 = a
        · simp [h']
        · simp [h']

theorem addedFrom_zero (a : Addr) (tx : Tx) :
    addedFrom a tx.txid tx.outs 0 =
      (createdBy tx).filterMap (fun p => if p.2.addr == some a then some p.1 else none) := by
  unfold addedFrom createdBy
  rw [List.filterMap_map, ← List.range_eq_range']
  rfl

/-! ### All transactions of a block -/

/-- the outpoints one transaction references, in the order they are processed (this is the
    per-transaction part of `blockRefs`) -/
def txRefs (tx : Tx) : List OutPoint :=
  tx.ins ++ (List.range tx.outs.length).map (fun i => ⟨tx.txid, i⟩)

theorem blockRefs_eq (b : Block) : blockRefs b = b.txs.flatMap txRefs := rfl

theorem outRefs_zero (tx : Tx) :
    outRefs tx.txid 0 tx.outs.length = (List.range tx.outs.length).map (fun i => ⟨tx.txid, i⟩) := by
  unfold outRefs
  rw [← List.range_eq_range']

/-- sum of output values as the code computes it -/
def outSum (tx : Tx) : Nat := (tx.outs.map (·.value)).foldl (· + ·) 0

/-- fee rate of one transaction (`None` for a coinbase, for an output sum above the input sum
    and for `vsize = 0`) -/
def feeRateOf (hist : List Block) (tx : Tx) : Option Nat :=
  if !tx.coinbase && outSum tx ≤ inSum hist tx.ins then
    feeRatePerVbyte (inSum hist tx.ins - outSum tx) tx.vsize
  else none

/-- `BlockMetrics::fee_rates` by specification -/
def feeRatesSpec (hist : List Block) (txs : List Tx) : List Nat := txs.filterMap (feeRateOf hist)

/-- `BlockMetrics::utxo_delta` by specification -/
def utxoDeltaSpec (txs : List Tx) : Int :=
  (txs.map (fun tx => (tx.outs.length : Int) - (if tx.coinbase then 0 else (tx.ins.length : Int)))).sum

theorem insertTxs_cons (cache : OutPointsCache) (utxos : UtxoSet) (height : Nat) (tx : Tx)
    (txs : List Tx) (acc : InsertAcc) :
    insertTxs cache utxos height (tx :: txs) acc =
      match insertInputs cache utxos tx.ins
          { acc with utxoDelta := acc.utxoDelta + (tx.outs.length : Int) -
                      (if tx.coinbase then 0 else (tx.ins.length : Int)) } 0 with
      | none => none
      | some (acc1, inputSum) =>
        insertTxs cache utxos height txs
          (if !tx.coinbase && outSum tx ≤ inputSum then
            match feeRatePerVbyte (inputSum - outSum tx) tx.vsize with
            | some r =>
              { insertOutputsAcc tx.txid height tx.outs 0 acc1 with
                feeRates := (insertOutputsAcc tx.txid height tx.outs 0 acc1).feeRates ++ [r] }
            | none => insertOutputsAcc tx.txid height tx.outs 0 acc1
          else insertOutputsAcc tx.txid height tx.outs 0 acc1) := rfl

/-- every entry of the ledger is resolvable: outside the block, or among the references
    processed so far -/
def Found (cache : OutPointsCache) (utxos : UtxoSet) (l : LedgerMap) (refs : List OutPoint) : Prop :=
  ∀ e ∈ l, Avail cache utxos e.1 ∨ 0 < refs.count e.1

theorem Found.step {cache : OutPointsCache} {utxos : UtxoSet} {l : LedgerMap} {refs : List OutPoint}
    (hf : Found cache utxos l refs) (h : Nat) (tx : Tx) :
    Found cache utxos (applyTx l h tx) (refs ++ txRefs tx) := by
  intro e he
  rcases mem_applyTx he with h1 | ⟨h1, h2⟩
  · rcases hf e h1 with h3 | h3
    · exact Or.inl h3
    · right
      rw [List.count_append]
      omega
  · right
    have hlt : e.1.vout < tx.outs.length := by
      rcases List.getElem?_eq_some_iff.mp h2 with ⟨hl, _⟩
      exact hl
    have : e.1 ∈ txRefs tx := by
      unfold txRefs
      apply List.mem_append_right
      rw [List.mem_map]
      refine ⟨e.1.vout, List.mem_range.mpr hlt, ?_⟩
      rw [← h1]
    exact List.count_pos_iff.mpr (List.mem_append_right _ this)

theorem insertTxs_spec {cache : OutPointsCache} {utxos : UtxoSet} {hist : List Block}
    (hsrc : Sources cache utxos hist) (height : Nat) :
    ∀ (txs : List Tx) (acc : InsertAcc) (refs : List OutPoint) (l : LedgerMap) (lh : Nat),
      LocalOk hist acc.local_ refs →
      Found cache utxos l refs →
      TxValidFrom.TxsValid l lh txs →
      (∀ tx ∈ txs, ∀ j (hj : j < tx.outs.length), outAt hist ⟨tx.txid, j⟩ = some tx.outs[j]) →
      ∃ acc', insertTxs cache utxos height txs acc = some acc' ∧
        LocalOk hist acc'.local_ (refs ++ txs.flatMap txRefs) ∧
        (∀ a, getL acc'.added a = getL acc.added a ++
          txs.flatMap (fun tx => (createdBy tx).filterMap
            (fun p => if p.2.addr == some a then some p.1 else none))) ∧
        (∀ a, getL acc'.removed a = getL acc.removed a ++
          txs.flatMap (fun tx => removedOf hist a tx.ins)) ∧
        acc'.utxoDelta = acc.utxoDelta + utxoDeltaSpec txs ∧
        acc'.feeRates = acc.feeRates ++ feeRatesSpec hist txs := by
  intro txs
  induction txs with
  | nil =>
    intro acc refs l lh hloc _ _ _
    exact ⟨acc, rfl, by simpa using hloc, by simp, by simp, by simp [utxoDeltaSpec],
      by simp [feeRatesSpec]⟩
  | cons tx txs ih =>
    intro acc refs l lh hloc hfound hval houts
    simp only [TxValidFrom.TxsValid] at hval
    obtain ⟨hins, _, hrest⟩ := hval
    -- inputs
    have hav : ∀ o ∈ tx.ins, Avail cache utxos o ∨ 0 < refs.count o := by
      intro o ho
      have hs := hins o ho
      cases hfo : AList.find? l o with
      | none => simp [hfo] at hs
      | some v => exact hfound (o, v) (AList.mem_of_find? _ _ _ hfo)
    obtain ⟨acc1, e1, l1, a1, d1, f1, r1⟩ := insertInputs_spec hsrc tx.ins
      { acc with utxoDelta := acc.utxoDelta + (tx.outs.length : Int) -
                  (if tx.coinbase then 0 else (tx.ins.length : Int)) } 0 refs hloc hav
    -- outputs
    have hout0 : ∀ j (hj : j < tx.outs.length), outAt hist ⟨tx.txid, 0 + j⟩ = some tx.outs[j] := by
      intro j hj
      rw [Nat.zero_add]
      exact houts tx (by simp) j hj
    obtain ⟨l2, r2, d2, f2, a2⟩ :=
      insertOutputsAcc_spec (hist := hist) tx.txid height tx.outs 0 acc1 (refs ++ tx.ins) l1 hout0
    rw [insertTxs_cons, e1]
    simp only [Nat.zero_add]
    -- the accumulator after the fee-rate step
    let acc2 : InsertAcc :=
      if !tx.coinbase && outSum tx ≤ inSum hist tx.ins then
        match feeRatePerVbyte (inSum hist tx.ins - outSum tx) tx.vsize with
        | some r =>
          { insertOutputsAcc tx.txid height tx.outs 0 acc1 with
            feeRates := (insertOutputsAcc tx.txid height tx.outs 0 acc1).feeRates ++ [r] }
        | none => insertOutputsAcc tx.txid height tx.outs 0 acc1
      else insertOutputsAcc tx.txid height tx.outs 0 acc1
    have hq : acc2.local_ = (insertOutputsAcc tx.txid height tx.outs 0 acc1).local_ ∧
        acc2.added = (insertOutputsAcc tx.txid height tx.outs 0 acc1).added ∧
        acc2.removed = (insertOutputsAcc tx.txid height tx.outs 0 acc1).removed ∧
        acc2.utxoDelta = (insertOutputsAcc tx.txid height tx.outs 0 acc1).utxoDelta ∧
        acc2.feeRates = (insertOutputsAcc tx.txid height tx.outs 0 acc1).feeRates ++
          (feeRateOf hist tx).toList := by
      simp only [acc2, feeRateOf]
      split
      · split <;> rename_i hfr <;> simp [hfr]
      · simp
    obtain ⟨q1, q2, q3, q4, q5⟩ := hq
    have hloc2 : LocalOk hist acc2.local_ (refs ++ txRefs tx) := by
      rw [q1]
      exact l2.congr (by simp [txRefs, outRefs_zero])
    obtain ⟨acc', e3, l3, a3, r3, d3, f3⟩ := ih acc2 (refs ++ txRefs tx) (applyTx l lh tx) lh hloc2
      (hfound.step lh tx) hrest (fun tx' hm => houts tx' (by simp [hm]))
    refine ⟨acc', e3, l3.congr (by simp), ?_, ?_, ?_, ?_⟩
    · intro a
      rw [a3 a, q2, a2 a, a1, addedFrom_zero]
      simp
    · intro a
      rw [r3 a, q3, r2, r1 a]
      simp
    · rw [d3, q4, d2, d1]
      simp only [utxoDeltaSpec, List.map_cons, List.sum_cons]
      omega
    · rw [f3, q5, f2, f1]
      simp only [feeRatesSpec, List.filterMap_cons]
      cases feeRateOf hist tx <;> simp


/-! ### `insertOutpoints` -/

theorem mem_blockRefs_of_input {c : Block} {tx : Tx} {o : OutPoint} (hm : tx ∈ c.txs)
    (ho : o ∈ tx.ins) : o ∈ blockRefs c := by
  rw [blockRefs_eq, List.mem_flatMap]
  exact ⟨tx, hm, List.mem_append_left _ ho⟩

theorem mem_blockRefs_of_created {c : Block} {tx : Tx} {o : OutPoint} (hm : tx ∈ c.txs)
    (h1 : o.txid = tx.txid) (h2 : o.vout < tx.outs.length) : o ∈ blockRefs c := by
  rw [blockRefs_eq, List.mem_flatMap]
  refine ⟨tx, hm, List.mem_append_right _ ?_⟩
  rw [List.mem_map]
  exact ⟨o.vout, List.mem_range.mpr h2, by rw [← h1]⟩

theorem removedSpec_eq (hist : List Block) (b : Block) (a : Addr) :
    removedSpec hist b a = b.txs.flatMap (fun tx => removedOf hist a tx.ins) := rfl

/-- What `insertOutpoints cache utxos b height = some (cache', m)` achieves, in history `hist`. -/
structure InsertResult (cache : OutPointsCache) (hist : List Block) (b : Block)
    (cache' : OutPointsCache) (m : BlockMetrics) : Prop where
  /-- the new block's per-address lists are the specified ones -/
  addedNew : ∀ a, cache'.getAdded b.hash a = addedSpec b a
  removedNew : ∀ a, cache'.getRemoved b.hash a = removedSpec hist b a
  /-- other blocks' entries are unchanged -/
  addedFind : ∀ h, AList.find? cache'.added h =
    if b.hash == h then AList.find? cache'.added b.hash else AList.find? cache.added h
  removedFind : ∀ h, AList.find? cache'.removed h =
    if b.hash == h then AList.find? cache'.removed b.hash else AList.find? cache.removed h
  addedKey : (AList.find? cache'.added b.hash).isSome = true
  removedKey : (AList.find? cache'.removed b.hash).isSome = true
  /-- reference counts: every outpoint's count grows by its number of occurrences in
      `blockRefs b`; existing entries keep their content; new entries carry the true output -/
  txOutsNodup : (cache.txOuts.map (·.1)).Nodup → (cache'.txOuts.map (·.1)).Nodup
  txOutsOld : ∀ o old, AList.find? cache.txOuts o = some old →
    AList.find? cache'.txOuts o = some { old with count := old.count + (blockRefs b).count o }
  txOutsNew : ∀ o, AList.find? cache.txOuts o = none → 0 < (blockRefs b).count o →
    ∃ i, AList.find? cache'.txOuts o = some i ∧ i.count = (blockRefs b).count o ∧
      outAt hist o = some i.txout
  txOutsNone : ∀ o, AList.find? cache.txOuts o = none → (blockRefs b).count o = 0 →
    AList.find? cache'.txOuts o = none
  /-- metrics -/
  feeRates : m.feeRates = feeRatesSpec hist b.txs
  utxoDelta : m.utxoDelta = utxoDeltaSpec b.txs

/-- **Correctness of `insert_outpoints`.** `G` is the stable chain, `P` the root path to the
    parent of `b` in the tree, `hist` any history with consistent txids containing `G` and `b`.
    The call never fails (`TxOutNotFound`) and produces exactly the specified cache. -/
theorem insertOutpoints_spec {cache : OutPointsCache} {utxos : UtxoSet} {hist G P : List Block}
    {b : Block} (height : Nat)
    (hstable : ∀ o, utxos.getUtxo o = AList.find? (ledger G) o)
    (hcache : ∀ o i, AList.find? cache.txOuts o = some i → outAt hist o = some i.txout)
    (hpath : ∀ c ∈ P, ∀ o ∈ blockRefs c, (AList.find? cache.txOuts o).isSome = true)
    (htx : TxidsConsistent hist) (hG : ∀ g ∈ G, g ∈ hist) (hb : b ∈ hist)
    (hvalid : TxValid (G ++ P ++ [b])) :
    ∃ cache' m, insertOutpoints cache utxos b height = some (cache', m) ∧
      InsertResult cache hist b cache' m := by
  -- the sources are truthful
  have hsrc : Sources cache utxos hist := by
    refine ⟨hcache, ?_⟩
    intro o t h hs
    rw [hstable] at hs
    exact outAt_mono htx hG (ledger_entry_outAt (TxidsConsistent.of_subset htx hG) hs)
  -- validity of the block on its chain
  unfold TxValid at hvalid
  rw [txValidFrom_append] at hvalid
  obtain ⟨_, hvb⟩ := hvalid
  simp only [TxValidFrom] at hvb
  obtain ⟨_, _, htxs, _⟩ := hvb
  -- everything in the ledger before the block can be resolved
  have hfound : Found cache utxos (ledgerFrom [] 0 (G ++ P)) [] := by
    intro e he
    left
    rw [ledgerFrom_append] at he
    rcases mem_ledgerFrom P he with h1 | ⟨tx, hm, h1, h2⟩
    · right
      rw [hstable]
      exact (AList.find?_isSome_iff_mem_keys _ _).mpr (List.mem_map.mpr ⟨e, h1, rfl⟩)
    · left
      rw [mem_txsOf] at hm
      obtain ⟨c, hc, hmc⟩ := hm
      have hlt : e.1.vout < tx.outs.length := (List.getElem?_eq_some_iff.mp h2).1
      exact hpath c hc e.1 (mem_blockRefs_of_created hmc h1 hlt)
  have houts : ∀ tx ∈ b.txs, ∀ j (hj : j < tx.outs.length),
      outAt hist ⟨tx.txid, j⟩ = some tx.outs[j] :=
    fun tx hm j hj => outAt_created htx ((mem_txsOf _ _).mpr ⟨b, hb, hm⟩) j hj
  obtain ⟨acc, e1, l1, a1, r1, d1, f1⟩ :=
    insertTxs_spec hsrc height b.txs {} [] _ _ (LocalOk.nil hist) hfound htxs houts
  simp only [List.nil_append] at l1
  rw [← blockRefs_eq] at l1
  have hio : insertOutpoints cache utxos b height =
      some ({ txOuts := mergeLocal cache.txOuts acc.local_,
              added := AList.insert cache.added b.hash acc.added,
              removed := AList.insert cache.removed b.hash acc.removed },
            ⟨acc.feeRates, acc.utxoDelta⟩) := by
    simp only [insertOutpoints, e1]
  refine ⟨_, _, hio, ?_⟩
  have hfm := fun o => find?_mergeLocal acc.local_ cache.txOuts l1.nodup o
  refine ⟨?_, ?_, ?_, ?_, ?_, ?_, ?_, ?_, ?_, ?_, ?_, ?_⟩
  · intro a
    have := a1 a
    simp only [getL, AList.find?_nil, Option.getD_none, List.nil_append] at this
    simp only [OutPointsCache.getAdded, AList.find?_insert_self]
    exact this
  · intro a
    have := r1 a
    simp only [getL, AList.find?_nil, Option.getD_none, List.nil_append] at this
    simp only [OutPointsCache.getRemoved, AList.find?_insert_self]
    rw [removedSpec_eq]
    exact this
  · intro h
    simp only [AList.find?_insert]
    split <;> simp
  · intro h
    simp only [AList.find?_insert]
    split <;> simp
  · simp [AList.find?_insert_self]
  · simp [AList.find?_insert_self]
  · exact nodup_mergeLocal acc.local_ cache.txOuts
  · intro o old ho
    simp only
    rw [hfm o, ho]
    cases hl : AList.find? acc.local_ o with
    | none => simp [l1.none_ok o hl]
    | some i => simp [(l1.some_ok o i hl).1]
  · intro o ho hpos
    simp only
    rw [hfm o, ho]
    cases hl : AList.find? acc.local_ o with
    | none => have := l1.none_ok o hl; omega
    | some i =>
      obtain ⟨h1, _, h3⟩ := l1.some_ok o i hl
      exact ⟨i, rfl, h1, h3⟩
  · intro o ho hz
    simp only
    rw [hfm o, ho]
    cases hl : AList.find? acc.local_ o with
    | none => rfl
    | some i =>
      obtain ⟨h1, h2, _⟩ := l1.some_ok o i hl
      omega
  · simp only [f1]
    simp
  · simp only [d1]
    simp

end Btc.InsertOutpoints
