import BtcModel.Model.Unstable

/-!
  `Tree.mapT` (used by `clear_all_metrics`) commutes with every tree-level function of the model
  as long as the mapped function preserves what those functions look at (difficulty, hash).
  Helper lemmas for C09 (upgrade transparency).
-/
namespace Btc
set_option linter.unusedSectionVars false
namespace Tree

variable {α β γ : Type}

/-! ### shape -/

theorem mapTList_eq_map (f : α → β) : ∀ cs : List (Tree α), mapTList f cs = cs.map (mapT f)
  | [] => rfl
  | c :: cs => by simp only [mapTList, List.map_cons, mapTList_eq_map f cs]

theorem mapTList_append (f : α → β) (cs ds : List (Tree α)) :
    mapTList f (cs ++ ds) = mapTList f cs ++ mapTList f ds := by
  simp only [mapTList_eq_map, List.map_append]

theorem root_mapT (f : α → β) (t : Tree α) : (mapT f t).root = f t.root := by
  cases t with
  | node r cs => rfl

theorem children_mapT (f : α → β) (t : Tree α) : (mapT f t).children = mapTList f t.children := by
  cases t with
  | node r cs => rfl

mutual
theorem mapT_mapT (g : β → γ) (f : α → β) : ∀ t : Tree α, mapT g (mapT f t) = mapT (g ∘ f) t
  | .node r cs => by simp only [mapT, mapTList_mapTList g f cs, Function.comp]
theorem mapTList_mapTList (g : β → γ) (f : α → β) :
    ∀ cs : List (Tree α), mapTList g (mapTList f cs) = mapTList (g ∘ f) cs
  | [] => rfl
  | c :: cs => by simp only [mapTList, mapT_mapT g f c, mapTList_mapTList g f cs]
end

mutual
theorem mapT_id : ∀ t : Tree α, mapT (fun x => x) t = t
  | .node r cs => by simp only [mapT, mapTList_id cs]
theorem mapTList_id : ∀ cs : List (Tree α), mapTList (fun x => x) cs = cs
  | [] => rfl
  | c :: cs => by simp only [mapTList, mapT_id c, mapTList_id cs]
end

mutual
theorem blocks_mapT (f : α → β) : ∀ t : Tree α, blocks (mapT f t) = (blocks t).map f
  | .node r cs => by simp only [mapT, blocks, List.map_cons, blocksList_mapTList f cs]
theorem blocksList_mapTList (f : α → β) :
    ∀ cs : List (Tree α), blocksList (mapTList f cs) = (blocksList cs).map f
  | [] => rfl
  | c :: cs => by
    simp only [mapTList, blocksList, List.map_append, blocks_mapT f c, blocksList_mapTList f cs]
end

mutual
/-- two maps agree on a tree when they agree on its blocks -/
theorem mapT_congr (f g : α → β) : ∀ t : Tree α, (∀ x ∈ blocks t, f x = g x) → mapT f t = mapT g t
  | .node r cs, h => by
    simp only [mapT]
    rw [h r (by simp [blocks]), mapTList_congr f g cs (fun x hx => h x (by simp [blocks, hx]))]
theorem mapTList_congr (f g : α → β) :
    ∀ cs : List (Tree α), (∀ x ∈ blocksList cs, f x = g x) → mapTList f cs = mapTList g cs
  | [], _ => rfl
  | c :: cs, h => by
    simp only [mapTList]
    rw [mapT_congr f g c (fun x hx => h x (by simp [blocksList, hx])),
      mapTList_congr f g cs (fun x hx => h x (by simp [blocksList, hx]))]
end

mutual
theorem blocksCount_mapT (f : α → β) : ∀ t : Tree α, blocksCount (mapT f t) = blocksCount t
  | .node r cs => by simp only [mapT, blocksCount, blocksCountList_mapTList f cs]
theorem blocksCountList_mapTList (f : α → β) :
    ∀ cs : List (Tree α), blocksCountList (mapTList f cs) = blocksCountList cs
  | [] => rfl
  | c :: cs => by
    simp only [mapTList, blocksCountList, blocksCount_mapT f c, blocksCountList_mapTList f cs]
end

mutual
theorem depth_mapT (f : α → β) : ∀ t : Tree α, depth (mapT f t) = depth t
  | .node r cs => by simp only [mapT, depth, depthList_mapTList f cs]
theorem depthList_mapTList (f : α → β) :
    ∀ cs : List (Tree α), depthList (mapTList f cs) = depthList cs
  | [] => rfl
  | c :: cs => by simp only [mapTList, depthList, depth_mapT f c, depthList_mapTList f cs]
end

mutual
theorem tipDepthsFrom_mapT (f : α → β) :
    ∀ (t : Tree α) (k : Nat), tipDepthsFrom (mapT f t) k = tipDepthsFrom t k
  | .node r [], k => by simp only [mapT, mapTList, tipDepthsFrom]
  | .node r (c :: cs), k => by
    simp only [mapT, mapTList, tipDepthsFrom]
    have := tipDepthsRev_mapTList f (c :: cs) (k + 1)
    simpa only [mapTList] using this
theorem tipDepthsRev_mapTList (f : α → β) :
    ∀ (cs : List (Tree α)) (k : Nat), tipDepthsRev (mapTList f cs) k = tipDepthsRev cs k
  | [], _ => rfl
  | c :: cs, k => by
    simp only [mapTList, tipDepthsRev, tipDepthsFrom_mapT f c k, tipDepthsRev_mapTList f cs k]
end

theorem tipDepths_mapT (f : α → β) (t : Tree α) : tipDepths (mapT f t) = tipDepths t :=
  tipDepthsFrom_mapT f t 1

mutual
theorem tipCount_mapT (f : α → β) : ∀ (t : Tree α), tipCount (mapT f t) = tipCount t
  | .node r [] => by simp only [mapT, mapTList, tipCount]
  | .node r (c :: cs) => by
    simp only [mapT, mapTList, tipCount]
    have := tipCountList_mapTList f (c :: cs)
    simpa only [mapTList] using this
theorem tipCountList_mapTList (f : α → β) :
    ∀ (cs : List (Tree α)), tipCountList (mapTList f cs) = tipCountList cs
  | [] => rfl
  | c :: cs => by
    simp only [mapTList, tipCountList, tipCount_mapT f c, tipCountList_mapTList f cs]
end

/-! ### difficulty-based functions: `d' (f x) = d x` -/

section Diff
variable (f : α → β) (d : α → Nat) (d' : β → Nat) (hd : ∀ x, d' (f x) = d x)
include hd

mutual
theorem diffDepth_mapT : ∀ t : Tree α, diffDepth d' (mapT f t) = diffDepth d t
  | .node r cs => by simp only [mapT, diffDepth, diffDepthList_mapTList cs, hd]
theorem diffDepthList_mapTList :
    ∀ cs : List (Tree α), diffDepthList d' (mapTList f cs) = diffDepthList d cs
  | [] => rfl
  | c :: cs => by
    simp only [mapTList, diffDepthList, diffDepth_mapT c, diffDepthList_mapTList cs]
end

mutual
theorem mainChainLenInner_mapT :
    ∀ t : Tree α, mainChainLenInner d' (mapT f t) = mainChainLenInner d t
  | .node r cs => by simp only [mapT, mainChainLenInner, bestChildLen_mapTList cs, hd]
theorem bestChildLen_mapTList :
    ∀ (cs : List (Tree α)) (acc : Nat × Nat),
      bestChildLen d' (mapTList f cs) acc = bestChildLen d cs acc
  | [], _ => rfl
  | c :: cs, acc => by
    simp only [mapTList, bestChildLen, mainChainLenInner_mapT c]
    split
    · exact bestChildLen_mapTList cs _
    · exact bestChildLen_mapTList cs _
end

theorem mainChainLen_mapT (t : Tree α) : mainChainLen d' (mapT f t) = mainChainLen d t := by
  unfold mainChainLen
  rw [mainChainLenInner_mapT f d d' hd t]

omit hd in
/-- the image of a `(difficulty, length, chain)` triple -/
def mapTriple (x : Nat × Nat × List α) : Nat × Nat × List β := (x.1, x.2.1, x.2.2.map f)

mutual
theorem mainChainInner_mapT :
    ∀ t : Tree α, mainChainInner d' (mapT f t) = mapTriple f (mainChainInner d t)
  | .node r cs => by
    have h := bestChild_mapTList cs (0, 0, [])
    have h0 : mapTriple f ((0 : Nat), (0 : Nat), ([] : List α)) = (0, 0, []) := rfl
    rw [h0] at h
    simp only [mapT, mainChainInner, h, hd]
    simp only [mapTriple, List.map_cons]
theorem bestChild_mapTList :
    ∀ (cs : List (Tree α)) (acc : Nat × Nat × List α),
      bestChild d' (mapTList f cs) (mapTriple f acc) = mapTriple f (bestChild d cs acc)
  | [], _ => rfl
  | c :: cs, acc => by
    simp only [mapTList, bestChild, mainChainInner_mapT c]
    have hk : keyGt ((mapTriple f (mainChainInner d c)).1, (mapTriple f (mainChainInner d c)).2.1)
        ((mapTriple f acc).1, (mapTriple f acc).2.1) =
        keyGt ((mainChainInner d c).1, (mainChainInner d c).2.1) (acc.1, acc.2.1) := rfl
    rw [hk]
    split
    · exact bestChild_mapTList cs _
    · exact bestChild_mapTList cs _
end

theorem mainChain_mapT (t : Tree α) : mainChain d' (mapT f t) = (mainChain d t).map f := by
  unfold mainChain
  rw [mainChainInner_mapT f d d' hd t]
  rfl

theorem childKey_mapT (c : Tree α) : childKey d' (mapT f c) = childKey d c := by
  unfold childKey
  rw [diffDepth_mapT f d d' hd, mainChainLen_mapT f d d' hd]

theorem childKeys_mapTList (cs : List (Tree α)) : childKeys d' (mapTList f cs) = childKeys d cs := by
  unfold childKeys
  rw [mapTList_eq_map, List.length_map]
  have : (List.range cs.length).zip (cs.map (mapT f)) =
      ((List.range cs.length).zip cs).map (fun p => (p.1, mapT f p.2)) := by
    rw [List.zip_map_right]
    rfl
  rw [this, List.map_map]
  apply List.map_congr_left
  intro p _
  simp only [Function.comp, childKey_mapT f d d' hd]

omit hd in
theorem nthDepth_mapTList (cs : List (Tree α)) (i : Nat) :
    nthDepth (mapTList f cs) i = nthDepth cs i := by
  unfold nthDepth
  rw [mapTList_eq_map, List.getElem?_map]
  cases cs[i]? with
  | none => rfl
  | some c => simp only [Option.map_some, depth_mapT]

theorem stableChild_mapT (net : Net) (thr bound : Nat) (t : Tree α) :
    stableChild d' net thr bound (mapT f t) = stableChild d net thr bound t := by
  cases t with
  | node r cs =>
    simp only [mapT, stableChild, childKeys_mapTList f d d' hd, nthDepth_mapTList, hd]

end Diff

/-! ### hash-based functions: `h' (f x) = h x` -/

theorem rootsOf_mapTList (f : α → β) : ∀ cs : List (Tree α), rootsOf (mapTList f cs) = (rootsOf cs).map f
  | [] => rfl
  | (.node r ds) :: cs => by
    simp only [mapTList, mapT, rootsOf, List.map_cons, rootsOf_mapTList f cs]

section Hash
variable (f : α → β) (h : α → Nat) (h' : β → Nat) (hh : ∀ x, h' (f x) = h x)
include hh

omit hh in
/-- the image of a `(chain, successors)` pair -/
def mapPair (p : List α × List α) : List β × List β := (p.1.map f, p.2.map f)

mutual
theorem chainWithTip_mapT (tip : Nat) :
    ∀ t : Tree α, chainWithTip h' tip (mapT f t) = (chainWithTip h tip t).map (mapPair f)
  | .node r cs => by
    simp only [mapT, chainWithTip, hh, chainWithTipList_mapTList tip cs, rootsOf_mapTList]
    split
    · rfl
    · cases chainWithTipList h tip cs with
      | none => rfl
      | some x => rfl
theorem chainWithTipList_mapTList (tip : Nat) :
    ∀ cs : List (Tree α),
      chainWithTipList h' tip (mapTList f cs) = (chainWithTipList h tip cs).map (mapPair f)
  | [] => rfl
  | c :: cs => by
    simp only [mapTList, chainWithTipList, chainWithTip_mapT tip c]
    cases chainWithTip h tip c with
    | none => exact chainWithTipList_mapTList tip cs
    | some x => rfl
end

theorem findDepth_mapT (x : Nat) (t : Tree α) : findDepth h' x (mapT f t) = findDepth h x t := by
  unfold findDepth
  rw [chainWithTip_mapT f h h' hh]
  cases chainWithTip h x t with
  | none => rfl
  | some p => simp [mapPair]

theorem contains_mapT (x : Nat) (t : Tree α) : contains h' x (mapT f t) = contains h x t := by
  unfold contains
  rw [chainWithTip_mapT f h h' hh]
  cases chainWithTip h x t <;> rfl

mutual
theorem levels_mapT : ∀ t : Tree α, levels h' (mapT f t) = levels h t
  | .node r cs => by
    simp only [mapT, levels, hh, depthList_mapTList, levelsList_mapTList cs]
theorem levelsList_mapTList : ∀ cs : List (Tree α), levelsList h' (mapTList f cs) = levelsList h cs
  | [] => rfl
  | c :: cs => by simp only [mapTList, levelsList, levels_mapT c, levelsList_mapTList cs]
end

mutual
theorem extend_mapT (prev : Nat) (b : α) :
    ∀ t : Tree α, extend h' prev (f b) (mapT f t) = (extend h prev b t).map (mapT f)
  | .node r cs => by
    simp only [mapT, extend, hh, extendList_mapTList prev b cs]
    split
    · simp only [Option.map_some, mapT, mapTList_append, mapTList]
    · cases extendList h prev b cs with
      | none => rfl
      | some cs' => simp only [Option.map_some, mapT]
theorem extendList_mapTList (prev : Nat) (b : α) :
    ∀ cs : List (Tree α),
      extendList h' prev (f b) (mapTList f cs) = (extendList h prev b cs).map (mapTList f)
  | [] => rfl
  | c :: cs => by
    simp only [mapTList, extendList, extend_mapT prev b c, extendList_mapTList prev b cs]
    cases extend h prev b c with
    | some c' => simp only [Option.map_some, mapTList]
    | none =>
      cases extendList h prev b cs with
      | none => rfl
      | some cs' => simp only [Option.map_some, Option.map_none, mapTList]
end

end Hash

/-! ### the main chain consists of blocks of the tree -/

mutual
theorem mainChainInner_mem (d : α → Nat) :
    ∀ (t : Tree α), ∀ x ∈ (mainChainInner d t).2.2, x ∈ blocks t
  | .node r cs, x, hx => by
    simp only [mainChainInner, List.mem_cons] at hx
    simp only [blocks, List.mem_cons]
    rcases hx with rfl | hx
    · exact Or.inl rfl
    · rcases bestChild_mem d cs (0, 0, []) x hx with h | h
      · simp at h
      · exact Or.inr h
theorem bestChild_mem (d : α → Nat) :
    ∀ (cs : List (Tree α)) (acc : Nat × Nat × List α), ∀ x ∈ (bestChild d cs acc).2.2,
      x ∈ acc.2.2 ∨ x ∈ blocksList cs
  | [], acc, x, hx => Or.inl hx
  | c :: cs, acc, x, hx => by
    simp only [bestChild] at hx
    simp only [blocksList, List.mem_append]
    split at hx
    · rcases bestChild_mem d cs _ x hx with h | h
      · exact Or.inr (Or.inl (mainChainInner_mem d c x h))
      · exact Or.inr (Or.inr h)
    · rcases bestChild_mem d cs _ x hx with h | h
      · exact Or.inl h
      · exact Or.inr (Or.inr h)
end

/-- every block of the main chain is a block of the tree (no hypothesis) -/
theorem mainChain_mem_blocks (d : α → Nat) (t : Tree α) : ∀ x ∈ mainChain d t, x ∈ blocks t :=
  mainChainInner_mem d t

theorem mainChain_ne_nil (d : α → Nat) (t : Tree α) : mainChain d t ≠ [] := by
  cases t with
  | node r cs => simp [mainChain, mainChainInner]

theorem mainChain_head (d : α → Nat) (t : Tree α) : (mainChain d t).head? = some t.root := by
  cases t with
  | node r cs => simp [mainChain, mainChainInner, root]

end Tree

/-! ### `CBlock` without its metrics -/

/-- the function `clear_metrics` applies to every block -/
def stripC (c : CBlock) : CBlock := { c with feeRates := none, utxoDelta := 0 }

@[simp] theorem stripC_blk (c : CBlock) : (stripC c).blk = c.blk := rfl
@[simp] theorem stripC_hash (c : CBlock) : (stripC c).hash = c.hash := rfl
@[simp] theorem stripC_diff (c : CBlock) : (stripC c).diff = c.diff := rfl
@[simp] theorem stripC_feeRates (c : CBlock) : (stripC c).feeRates = none := rfl
@[simp] theorem stripC_utxoDelta (c : CBlock) : (stripC c).utxoDelta = 0 := rfl
@[simp] theorem stripC_stripC (c : CBlock) : stripC (stripC c) = stripC c := rfl

theorem stripC_comp : stripC ∘ stripC = stripC := rfl

theorem stripC_eq_iff (a b : CBlock) : stripC a = stripC b ↔ a.blk = b.blk := by
  constructor
  · intro h
    have := congrArg CBlock.blk h
    simpa using this
  · intro h; cases a; cases b; simp_all [stripC]

theorem clearMetrics_tree (u : Unstable) : u.clearMetrics.tree = Tree.mapT stripC u.tree := rfl

/-- `utxo_delta()` of a block whose metrics were cleared: recomputed from the block -/
theorem utxoDeltaNow_stripC (c : CBlock) : (stripC c).utxoDeltaNow = blockUtxoDelta c.blk := rfl

theorem mapT_stripC_idem (t : Tree CBlock) :
    Tree.mapT stripC (Tree.mapT stripC t) = Tree.mapT stripC t := by
  rw [Tree.mapT_mapT, stripC_comp]

end Btc
