#!/usr/bin/env python3
"""extract_witness.py <run-dir> <line-number> <out-file>: dumps the case prefix up to a line
(op, impl observation, model/spec observation) as a self-contained witness."""
import sys, json
d, ln, out = sys.argv[1], int(sys.argv[2]), sys.argv[3]
ops = open(d + "/ops.txt").read().split("\n")
imp = open(d + "/impl.txt").read().split("\n")
mod = open(d + "/model.txt").read().split("\n")
cs = ln
while not ops[cs].startswith("case "):
    cs -= 1
steps = []
for j in range(cs, ln + 1):
    o = ops[j]
    # keep state-changing ops and the failing line; drop other queries
    if j == ln or o.startswith("case ") or o.startswith("c init") or o.startswith("c push") or o.startswith("c ingest") or o.startswith("c hb") or o.startswith("c reply") or o.startswith("c upgrade") or o.startswith("c set"):
        steps.append({"op": o, "impl": imp[j], "model_or_spec": mod[j]})
json.dump({"steps": steps}, open(out, "w"), indent=1)
print(out, len(steps), "steps")
