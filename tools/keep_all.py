#!/usr/bin/env python3
"""keep_all.py: copies every CONFIRMED seeded change from /tmp/mut/out into /verif/seeded/<ID>-<n>/
(patch.diff, demo.diff, meta.json extended with how it was confirmed and what the checks said) and
writes /verif/seeded/RESULTS.md. Inputs: /tmp/mut/confirm_round*.log (my own confirmation runs),
/tmp/rig/results_round1.txt (checks as they were when the change was produced) and
/tmp/rig/results.txt (checks after strengthening)."""
import glob, json, os, re, shutil

OUT = "/tmp/mut/out"
DST = "/verif/seeded"


def confirm_lines():
    d = {}
    for f in sorted(glob.glob("/tmp/mut/confirm_round*.log")):
        for l in open(f):
            m = re.match(r"(C\d\d)(\d?) (demo_clean_rc=(\d+) demo_patched_rc=(\d+) .*)", l.strip())
            if m:
                d[(m.group(1), m.group(2) or "1")] = (m.group(3), m.group(4) == "0" and m.group(5) != "0")
    return d


def rig_results(path):
    d = {}
    if not os.path.exists(path):
        return d
    for l in open(path):
        m = re.match(r"(C\d\d)-(\d) (C\d\d) rc=(\d+) (.*)", l.strip())
        if m:
            d[(m.group(1), m.group(2))] = (m.group(3), int(m.group(4)), m.group(5).strip())
    return d


def verdict(r):
    if r is None:
        return "not run"
    prop, rc, text = r
    if rc == 0:
        return "MISSED (check passed)"
    if "no-failing-input-found" in text:
        k = re.search(r"replay=replays/\S+?-(\w+)-\d+-(correspondence|obligation)", text)
        if "obligation" in text:
            return "caught: proof/translator obligation or protocol broke (no failing input)"
        return "caught: correspondence broke (no-failing-input-found)"
    return "caught with a failing input (implementation vs specification)"


def main():
    conf = confirm_lines()
    r1 = rig_results("/tmp/rig/results_round1.txt")
    r2 = rig_results("/tmp/rig/results.txt")
    rows = []
    for d in sorted(glob.glob(f"{OUT}/C*/")):
        ID = os.path.basename(d.rstrip("/"))
        for p in sorted(glob.glob(d + "patch*.diff")):
            n = re.search(r"patch(\d*)\.diff", p).group(1)
            key = (ID, n or "1")
            c = conf.get(key)
            if not c or not c[1]:
                print("skip (not confirmed):", key)
                continue
            name = f"{ID}-{n or '1'}"
            dst = f"{DST}/{name}"
            os.makedirs(dst, exist_ok=True)
            shutil.copy(p, f"{dst}/patch.diff")
            shutil.copy(f"{d}demo{n}.diff", f"{dst}/demo.diff")
            meta = json.load(open(f"{d}meta{n}.json"))
            meta["confirmed_by_main"] = c[0]
            meta["what_i_ran"] = (
                f"tools/confirm_mutant.sh {ID} {n}: in the scratch worktree /tmp/mut/{ID} (clean checkout of /repo HEAD) applied demo.diff and ran "
                "demo_cmd (passed), applied patch.diff and ran it again (failed), then ran the touched crate's existing tests with patch.diff only: "
                "same result as on the untouched tree (ic-btc-canister --lib: 202 passed / 2 environmental failures; ic-btc-validation: 17 passed / 2 "
                "environmental failures; watchdog: 62 passed). Then tools/rig_run.sh ran the real `./check " + ID + " --tier quick` against a copy of /repo "
                "with patch.diff applied (private mount namespace; /repo untouched).")
            meta["check_result_when_produced"] = verdict(r1.get(key))
            meta["check_result_now"] = verdict(r2.get(key))
            meta["check_output_now"] = (r2.get(key) or ("", "", ""))[2]
            json.dump(meta, open(f"{dst}/meta.json", "w"), indent=1)
            rows.append((name, meta.get("summary", "")[:160].replace("|", "/").replace("\n", " "), verdict(r1.get(key)), verdict(r2.get(key))))
    with open(f"{DST}/RESULTS.md", "w") as f:
        f.write("# Seeded property-breaking changes and what the checks say\n\n"
                "Each change was produced by a fresh sub-agent that saw only the property text and its own scratch worktree of /repo; each compiles, passes the\n"
                "existing tests, and comes with a demonstration test (demo.diff) that passes on the clean tree and fails with the change. All were\n"
                "confirmed by me (meta.json: `confirmed_by_main`). To try one: `git -C /repo apply seeded/<id>/patch.diff; ./check <Cxx>; git -C /repo checkout -- .`\n"
                "(or `tools/rig_run.sh 0 <label> $PWD/seeded/<id>/patch.diff <Cxx>`, which leaves /repo alone).\n\n"
                "Column 3 = `./check <Cxx> --tier quick` with the machinery as it was when the change was produced; column 4 = after the strengthening described in DESIGN.md §8.\n\n"
                "| id | change | first run | now |\n|---|---|---|---|\n")
        for r in rows:
            f.write("| " + " | ".join(r) + " |\n")
        miss = [r[0] for r in rows if r[3].startswith("MISSED")]
        f.write(f"\n{len(rows)} changes; caught now: {len([r for r in rows if r[3].startswith('caught')])}; missed now: {len(miss)} {miss}\n")
    print("kept", len(rows))


if __name__ == "__main__":
    main()
