"""Per-property configuration of ./check: which correspondence streams are run and how."""

TRUSTED_BASE = [
    "Lean 4.33.0 kernel (lake build; leanchecker in the thorough tier)",
    "axioms: at most propext, Classical.choice, Quot.sound (audited with #print axioms on every run)",
    "correspondence check: Rust harness (/verif/harness) running /repo's real crates vs the compiled Lean driver on the same op lines (differential testing, not proof)",
    "translator tools/extract_consts.py (regex extraction of constants/tables into BtcModel/Gen)",
    "library behaviour modelled in Lean and validated by #guard vectors produced by the real libraries (trusted to be faithful beyond the vectors and the per-run cross-checks !codec / !json / !addr): SHA-256d, consensus codecs of transactions, headers and blocks, txid/ntxid/vsize, Address::from_script and Address::from_str + network check, String::from_utf8, serde_json::from_str::<Value>",
    "given by the harness, not modelled: float-valued Block::difficulty, candid, ciborium + stable-memory layout across upgrades, ic-stable-structures (B-tree = ordered key set), ic-cdk / IC runtime (message atomicity, cycles, timers, outcalls)",
]

HOOK_COMMITS = ["5384d917", "0f73256d", "53d65f90", "1047dece", "516900e7", "1a2a6d19"]

NOT_CLAIMED = {}

LEDGER_RULE = ("ledger stream: per case a fresh canister (network in {regtest x2, mainnet, testnet}, threshold in {1,1,2,2,3,4,6,144}, "
               "difficulty mode in {equal, small, heavy-vs-light, ties}), then 8-40 (quick) / 20-120 (thorough) random steps: "
               "push a transaction-valid block on a random alive parent (biased to tips / near the anchor; spends of stable and unstable outputs, "
               "same-block spends, re-confirmation of another fork's transaction, zero-value/OP_RETURN/non-standard/oversized scripts, prefix-pair addresses), "
               "ingestion rounds with unlimited or 0-12 step budgets, and query batches (all pages followed with page size 1/2/3/5/1000, every c up to length+2, "
               "header ranges up to tip+2, fees, fee rates for 1/2/3/5/8/10000 transactions, bookkeeping snapshot, stable digest) with the specification lines ledgerat/bestat/cutat/sumat/feesn, and upgrades at message boundaries (more often while an ingestion is paused). Directed families at fixed case numbers: many-outputs (F11), slice-by-slice ingestion of a multi-transaction block with an observation vector and upgrades at every pause position, tie shapes (one case per shard: anchor children with exactly equal accumulated difficulty but different numbers of blocks on the heaviest branch and lighter-but-longer side branches), depth-bound trees (anchor with 2-3 children carrying short heavy branches and 385-470 (thorough: -700) block light side chains, accumulated difficulties tying about half of the time; the ties mode picks difficulties that make branches tie exactly). "
               "A case is non-trivial if it pushed >= 3 blocks; distinct by the hash of (network, threshold, mode, parent choices, budgets).")

SYNC_RULE = ("sync stream: per case a fresh regtest canister (threshold 1-4, default or random fee table, manual async mode), then 12-45 (quick) / 30-120 (thorough) "
             "random messages: heartbeats with unlimited or 0-9 step budgets, or with an instruction counter that leaves only 0-3 iterations of the announced-header loop (suspended at the get_successors await; further heartbeats overlap), scripted replies of the block "
             "source (complete with 0-3 mined transaction-valid blocks on random parents plus bad elements at random positions: garbage, truncated, duplicate, orphan/redelivered, "
             "bad merkle root / duplicated last transaction, old timestamp, wrong bits, stable-only parent; partial replies split into 1+k pages, k in {0,1,2,3,5}; rejects; "
             "announced headers incl. garbage/duplicate/invalid), pre/post_upgrade with or without a threshold argument, set_config flips, gated endpoint calls with chosen "
             "attached cycles and instruction counts (both spellings of every network), send_transaction with exact/extended/truncated/bit-flipped/garbage payloads, and the ledger stream's query batch. "
             "Blocks with trailing bytes and header+00+junk blobs (prefix decoding); orphans whose parent was only announced; announced chains on fork points. "
             "Directed announced-fork family at a fixed case number (sync flag on; a fork is announced ahead of its blocks, its first blocks arrive next to existing siblings, "
             "more headers follow until the gap exceeds 2; the gate is asked through every endpoint after each step). "
             "A case is distinct by the hash of its message kinds and budgets.")

PROPS = {
    "C06": {
        "extra_props": ["ReachAll", "FullCor", "FullCorExample", "C06Chain", "C06ChainExample"],
        "spec_ops": ["c walk done"],
        "streams": [{"name": "ledger", "quick": 160, "thorough": 1600}],
        "rule": LEDGER_RULE + " Interleaved page walks: a walk (page size 1-3) is started on a random address and its pages are fetched with pushes, ingestions and queries in between; `walk done` compares the concatenation with the ledger at the first tip. One directed case per four shards: a transaction with 300 outputs to one address, page size 200, first page before and later pages after the block stabilises (known finding F11).",
        "explanation": "theorems: a page token of the k-th element returns exactly the suffix of the complete answer from that element; following next_page concatenates to the complete answer, each page <= limit, same tip; a token whose tip is still in the tree denotes the same ledger state in a later state (chain stability under push/pop/insert), otherwise UnknownTipBlockHash; page blobs: 72-byte codec round trip, any other length is MalformedPage, never a trap. F11 counterexample proved at model level.",
        "technique": "Lean 4 theorems (offset = suffix of the strictly ordered answer; snapshot consistency via the ledger refinement) + differential correspondence with interleaved page walks and a directed known-finding scenario",
        "level_text": "Machine-checked pagination on one state (all limits >= 1) and ledger-equality across state changes for a surviving tip; element ORDER across a stabilisation is not claimed (F11, known).",
        "level_note": "Hypotheses: Inv, unique txids per path, heights/vout/txid ranges of the key encoding (model heights are Nat). An offset that is not an element of the answer is only shown not to trap.",
        "assumptions": [],
    },
    "C07": {
        "extra_props": ["ReachAll", "FullSys", "FullSysExample", "EndpointsFull"],
        "spec_ops": ["c q headers"],
        "streams": [{"name": "ledger", "quick": 160, "thorough": 1600}, {"name": "sync", "quick": 64, "thorough": 800}],
        "rule": LEDGER_RULE + " Header ranges (start, end) up to tip+2 are requested after steps and at pauses of sliced ingestions; the specification column of every `q headers` line is the slice of (stable chain ++ heaviest branch) computed by the driver.",
        "explanation": "theorems: under Inv the answer is the slice [lo..hi] of the full best chain's headers, one per height, hi = min(end or tip, start+max-1); the three errors with the code's precedence; consecutive blocks hash-linked; identical answer while the anchor is being ingested (F6 fixed).",
        "technique": "Lean 4 theorems (range = slice of ghost chain ++ main chain under the global invariant) + differential correspondence with an oracle column on every header query",
        "level_text": "Machine-checked for all states satisfying Inv (+ distinct heights in the header store) and all (start, end); checked against the oracle at every query incl. paused ingestions and after upgrades.",
        "level_note": "Header bytes are opaque in the model (hash/prev/time/bits are given); linkedness is stated on the blocks' prev/hash fields.",
        "assumptions": ["maxHeaders >= 1 (the constant is 100, generated)"],
    },
    "C08": {
        "extra_props": ["ReachAll", "FullCor", "FullCorExample"],
        "model_spec_ops": ["c ingest"],
        "spec_ops": ["c pausedsame"],
        "streams": [{"name": "ledger", "quick": 160, "thorough": 1600}, {"name": "sync", "quick": 64, "thorough": 800}],
        "rule": LEDGER_RULE + " Ingestion rounds with budgets 0-12 pause the anchor's ingestion at every position (inputs / outputs of every transaction); at each pause `pausedsame` compares the labelled answers of every query endpoint for every pool address with the ones taken before the ingestion began (specification column same=1, len=1), and the run continues with further slices; the final state is compared with the model, which is proved schedule-independent.",
        "explanation": "theorems: pause/resume determinism (ingestBlock b1 paused then continue b2 = ingestBlock (b1+b2)), any slice schedule = the unsliced run incl. traps, two completing schedules give the same state (all fields), every round with budget >= 1 makes progress and the block finishes within blockWork rounds; while paused: get_balance, get_utxos (all filters and page tokens, full response), get_block_headers, fee percentiles, tip height/hash/timestamp/difficulty are those of the state before the ingestion began; no get_successors request is issued while ingesting. utxos_length deviation (F10) stated exactly.",
        "technique": "Lean 4 theorems (fuel-free run of the ingestion loop, pause invariant PausedView relating the half-ingested set to the previous ledger through the per-block delta) + differential correspondence with slice budgets at every position",
        "level_text": "Machine-checked for every block, budget schedule and pause position; invisibility for all states satisfying Inv (+ unique txids, distinct header heights).",
        "level_note": "Known finding F10: get_blockchain_info().utxos_length reads the raw size of the half-ingested set. A State-level bound on the number of rounds over several blocks is not proved (per block it is).",
        "assumptions": ["instruction budget abstracted to one unit per input/output (the harness sets the performance counter accordingly)"],
    },
    "C09": {
        "extra_props": ["FullCor", "FullCorExample", "FullSys", "C13Full", "C09Full"],
        "model_spec_ops": ["c ingest"],
        "spec_ops": ["c upgrade", "c hb"],
        "streams": [{"name": "sync", "quick": 160, "thorough": 3200}, {"name": "ledger", "quick": 96, "thorough": 800}],
        "rule": SYNC_RULE + " Every upgrade line carries the labelled answers of all query endpoints (info, per pool address get_utxos and get_balance, headers, synced) before and after; the specification column says they are identical.",
        "explanation": "theorems: get_utxos / get_balance / get_block_headers / is_synced / main-chain height / guards / config are literally unchanged by upgrade; blockchain_info unchanged under DeltaOk (after the F7 fix the delta is recomputed); fee percentiles recomputed from the tx-out cache equal the insertion-time rates under Inv; with a config argument exactly the named fields change; simulation relation (equal up to fetch state and per-block metrics) preserved by push and ingestion and implying equal answers; the first request after an upgrade is an initial one.",
        "technique": "Lean 4 theorems (frame lemmas + simulation relation over the model's upgrade) + differential correspondence with real pre_upgrade/post_upgrade at random message boundaries",
        "level_text": "PARTIAL by design: the serialisation (ciborium, stable-memory layout) is outside the model; the logical content of an upgrade is proved transparent, and the real upgrade is exercised at every kind of message boundary (fetching, response stored, partial pages, ingestion paused).",
        "level_note": "Known finding F13 (threshold raised while an ingestion is paused makes every later heartbeat trap) is reported as KNOWN-FINDING when the stream reaches it.",
        "assumptions": ["an in-flight call is abandoned by an upgrade (the pending future is dropped)"],
    },
    "C20": {
        "model_spec_ops": ["c snap"],
        "spec_ops": [],
        "extra_props": ["C01Reach", "C03History", "ReachAll", "FullSys", "FullSysExample"],
        "streams": [{"name": "ledger", "quick": 160, "thorough": 1600}, {"name": "sync", "quick": 64, "thorough": 800}],
        "rule": LEDGER_RULE + " The `snap` line dumps, canonically sorted: tree hashes, hashes in the stable-memory block cache, every cached tx out with value/address/height/reference count, per-block added and removed outpoints per address, announced headers by hash and by height, cached and recomputed tip depths.",
        "explanation": "theorems for every reachable state (paused ones included since Props/ReachAll): block-cache hashes = tree hashes (Nodup, same length); keys of the per-block delta maps = tree hashes and their content = the blocks' projections; a tx-out entry exists iff referenced, count = number of references, content = true output; every outpoint a later query / fee computation / removal looks up is present (remove never fails); cached tip depths = recomputed, also after upgrade; announced headers: the two maps agree, none is a tree block, all heights > stable height after a pop, max height = maximum.",
        "technique": "Lean 4 invariant lifted to all reachable states of the op transition system (init, push, ingest, set_config, upgrade, announce) + differential correspondence of the full bookkeeping snapshot after every step",
        "level_text": "Machine-checked exactness of the bookkeeping for every message history, paused states included (Props/ReachAll.bookkeeping_exact, FullSys.c20_bookkeeping_exact); the snapshot hook compares every structure with the model after each generated op (incl. discarded forks at different depths, shared transactions, upgrades).",
        "level_note": "'Memory stays proportional' is represented by its logical content (entries = tree requirements). Pushes are the direct feed with domain hypotheses (fresh hash, parent in tree, transaction-valid, unique txids).",
        "assumptions": [],
    },
    "C01": {
        "model_spec_ops": ["c ledgerat"],
        "spec_ops": ["c ledgerat"],
        "extra_props": ["C01Reach", "InvPush", "InvIngest", "BlockCodec", "ReachAll", "FullSys", "FullSysExample", "AddrParse", "AddrParseExample"],
        "streams": [{"name": "ledger", "quick": 160, "thorough": 1600}, {"name": "sync", "quick": 64, "thorough": 800}],
        "rule": LEDGER_RULE,
        "explanation": "theorems: for every state satisfying the global invariant Inv (established by init, preserved by push of a transaction-valid block and by ingestion+pop: Props/InvPush, Props/InvIngest) "
                       "the complete unfiltered answer of get_utxos for an address is a permutation of the reference ledger replay of (stable chain ++ main chain) restricted to that address: each unspent output once, "
                       "true value, height of its block on that chain, heights non-increasing, tip = last main-chain block; the same for any root-path prefix (min_confirmations, page tips). Spec line `ledgerat` replays the ledger "
                       "at the tip the implementation names, on every generated state.",
        "technique": "Lean 4 refinement proof (global invariant relating stable structures and unstable caches to a ghost history; query = ledger replay) + differential correspondence with ledger-replay oracle lines",
        "level_text": "Machine-checked for EVERY MESSAGE HISTORY (heartbeats with any budgets incl. pauses in the middle of a block, replies of any kind, calls, set_config, upgrades): the answer of unfiltered get_utxos is the ledger of stable chain ++ heaviest branch (permutation, distinct outpoints, heights non-increasing, tip = tip of get_blockchain_info) - FullSys.c01_getUtxos_unfiltered over fullReachable_inv; blocks, request addresses and their derived attributes are decoded by the model itself; tie by the ledger and sync streams.",
        "level_note": "Environment assumption Trusted: a block that passes the canister's own validation extends a transaction-valid, txid-unique chain with a fresh hash (what proof of work gives the canister). Explicit range hypothesis: stable height <= 2^32 for the ordering part (model heights are unbounded Nat).",
        "assumptions": ["Address::from_script and txid computation are library functions (given)"],
    },
    "C05": {
        "extra_props": ["ReachAll", "FullSys", "FullSysExample", "AddrParse", "EndpointsFull"],
        "spec_ops": ["c sumat"],
        "streams": [{"name": "ledger", "quick": 160, "thorough": 1600}, {"name": "sync", "quick": 64, "thorough": 800}],
        "rule": LEDGER_RULE,
        "explanation": "theorems: under Inv, get_balance(a, c) = total value of the ledger at the same prefix get_utxos(a, c) walks = sum of the UTXOs it returns (all pages); identical errors for malformed / wrong-network address and too large c; "
                       "get_balance never traps. Spec line `sumat` compares the sum of the implementation's get_utxos answer with its get_balance answer for every c.",
        "technique": "Lean 4 corollary of the ledger refinement (balance = sum of ledger values at the stability-count prefix) + differential correspondence with sum lines",
        "level_text": "Machine-checked equality for all states satisfying Inv and all c; both endpoints are queried with the same request after every generated step.",
        "level_note": "Same hypotheses as C01. The query variants share the code path of the update variants minus charging (C16).",
        "assumptions": [],
    },
    "C10": {
        "model_spec_ops": ["c hb", "c reply"],
        "spec_ops": [],
        "extra_props": ["BlockCodec", "FullSys", "FullSysExample", "HeaderSlots"],
        "streams": [{"name": "sync", "quick": 256, "thorough": 3200}],
        "rule": SYNC_RULE,
        "explanation": "theorems: insert_block accepts iff parent in tree, not already a child of it, header valid (C11), body valid (C12) and push succeeds; rejected blocks return no state (atomic); in a response the first "
                       "undecodable/rejected block bumps exactly one counter and the rest is dropped (result independent of the rest); garbage blocks / headers never trap; a complete response is consumed exactly once.",
        "technique": "Lean 4 theorems (decision logic of admission, validate-before-mutate atomicity, prefix independence of process_response) + differential correspondence with scripted block sources",
        "level_text": "Machine-checked admission logic for all responses and states of the model; compared with the canister after every heartbeat (syncing summary incl. error counters, tree size, announced headers) and through the query/snapshot/digest lines.",
        "level_note": "Trusted: Lean kernel, harness (manual async executor hook), library decoders (the decoded form of every blob is supplied by the harness). Domain: valid-PoW blocks are transaction-valid; otherwise insert_block's expect() traps (and would trap again on every heartbeat) - outside the property's domain.",
        "assumptions": ["regtest only for the end-to-end stream (proof of work must be mined); mainnet/testnet header rules are covered by C11's stream"],
    },
    "C13": {
        "extra_props": ["C13Live", "FullSys", "FullSysExample", "C13Full", "C13Lift", "C13LiftExample"],
        "model_spec_ops": ["c hb", "c reply"],
        "spec_ops": [],
        "streams": [{"name": "sync", "quick": 160, "thorough": 3200}],
        "rule": SYNC_RULE,
        "explanation": "theorems over ALL action sequences of the async transition system (heartbeat split at its await): single flight (pending request iff guard flag), stored response always well-formed (the request-selection "
                       "assertion never fails), request selection (initial names anchor + all other blocks; follow-ups numbered consecutively from 0), page reassembly = concatenation, reject clears partial data and the next "
                       "request is initial, no hash twice in the tree, a stored complete response is applied by the next idle heartbeat.",
        "technique": "Lean 4 invariants by induction over arbitrary interleavings of heartbeats, replies, upgrades, config changes and queries + differential correspondence with overlapping heartbeats through the yield-point hook",
        "level_text": "Machine-checked invariants of the transition system for every schedule and reply script (no bound); the split of the heartbeat at its await is tied to the real async fn by the hook that suspends it before call_get_successors.",
        "level_note": "Trusted: Lean kernel, harness + yield-point hook, the native mock of the inter-canister call. Liveness: explicit recovery schedule with a length bound from every reachable configuration (no_deadlock_full), fairness => unboundedly many requests (fair_unbounded_full), hypothesis 'not F13-stuck' proved necessary. u8 page counter overflow is a trap in the model (debug) and unreachable with well-typed replies.",
        "assumptions": ["replies have the kind their request asks for (other kinds trap the continuation; the trap state is modelled as rollback + guard release)"],
    },
    "C03": {
        "model_spec_ops": ["c advance"],
        "spec_ops": ["c advance"],
        "extra_props": ["C03History", "FullCor", "FullCorExample", "SpecsExtra"],
        "streams": [{"name": "ledger", "quick": 160, "thorough": 1600}, {"name": "sync", "quick": 80, "thorough": 800}],
        "rule": LEDGER_RULE + " After every ingestion opportunity the line `advance` records how many anchors were popped, whether the new anchor lies on the chain served before, and whether a stable child is still pending.",
        "explanation": "theorems: get_stable_child = some i iff child i satisfies the difficulty rule or (testnet/regtest) the depth rule, both directions, = none iff no child does, uniqueness; the selected child is always the "
                       "second block of the served chain (all networks, both rules - after the F12 fix); accumulated difficulty of the main chain = max root-to-leaf difficulty; pop/peek/push facts at the unstable-blocks level.",
        "technique": "Lean 4 theorems (sorting characterisation + mutual induction over the tree: decision = declarative rule; new anchor on served chain) + differential correspondence with per-ingestion finality lines",
        "level_text": "Machine-checked rule equivalence for all trees, thresholds, bounds and networks; the depth bound function enters as a parameter (its f64 computation is mirrored in the driver and compared on every state).",
        "level_note": "Trusted: Lean kernel, harness, translator (MAX_TESTNET_UNSTABLE_DEPTH_DIFFERENCE, MAX_UNSTABLE_BLOCKS). Monotonicity of the stable height / immutability of stable headers over histories is covered by the invariant work (Spec/Invariant.lean) and compared through the `digest` lines; the f64 bound is tied by correspondence only.",
        "assumptions": ["threshold changes while an ingestion is paused are outside the modelled domain of the ledger stream (see DESIGN F13)"],
    },
    "C04": {
        "extra_props": ["ReachAll", "FullCor", "FullCorExample"],
        "model_spec_ops": ["c cutat"],
        "spec_ops": ["c cutat"],
        "streams": [{"name": "ledger", "quick": 160, "thorough": 1600}],
        "rule": LEDGER_RULE,
        "explanation": "theorems: the vector-of-levels the code builds = the per-height (hash, depth) table of the tree; get_stability_count >= c iff the block is buried under >= c blocks and "
                       ">= c deeper than every competitor; the prefix walk = the property's definition (Spec.buriedPrefix) for every tree with distinct hashes; named tip = last block of that prefix; "
                       "fork-free corollary (prefix = first H-c+1 blocks); too-large c refused with max = chain length. Spec line `cutat` evaluates the independent definition + ledger at the cut.",
        "technique": "Lean 4 theorems (mutual induction over the block tree: prefix walk = independent burial definition) + differential correspondence incl. oracle lines for every c",
        "level_text": "Machine-checked equality of the code's stability-count walk with the property's definition for all trees/c; contents at the cut block are tied to the ledger by C01's theorems and validated by the `cutat` oracle on every generated state.",
        "level_note": "Trusted: Lean kernel, harness, translator. Hypothesis: block hashes in the tree pairwise distinct (shown necessary by a counterexample in Props/C04.lean).",
        "assumptions": ["blocks fed through unstable_blocks::push with mock difficulties"],
    },
    "C11": {
        "extra_props": ["SpecsExtraC11"],
        "model_spec_ops": ["h "],
        "spec_ops": [],
        "streams": [{"name": "hdr", "quick": 160, "thorough": 2400}, {"name": "sync", "quick": 96, "thorough": 1600}],
        "rule": "hdr stream: synthetic header stores for mainnet/testnet4/regtest (window from genesis, straddling a multiple of 2016, a full 2016-block period, or arbitrary base; timestamps with 1 s / 1200 s / >1200 s gaps and "
                "backdated headers; min-difficulty runs vs hard bits), then per store 14 (quick) / 40 (thorough) queries of the required next target (biased to the last height of a period and the window tip; walk-back traps "
                "included) and of the timestamp rule with the candidate at/around the median and now at/around the +2h edge. Distinct by (network, window, low digits of the answers). " + SYNC_RULE,
        "explanation": "theorems: validate_header = ok iff (parent known, time <= now+2h, time > median of <= 11 ancestors, target <= network max, hash meets target, target = required target), error precedence; median-time-past = "
                       "upper median of the first <= 11 ancestors; required target per network = Bitcoin Core's GetNextWorkRequired (2016 retarget with 4x clamp, BIP94 base on testnet4, 20-minute exception and walk-back, no retarget on regtest); "
                       "clamp bounds and compact-encoding facts (pow limit bits decode to the network maximum).",
        "technique": "Lean 4 theorems (acceptance = conjunction of consensus rules; algorithm = independent restatement of Core's rule) + differential correspondence on synthetic header stores and mined regtest chains",
        "level_text": "Machine-checked for all stores/headers/times and the three networks; compact-target arithmetic (from_compact, to_compact_lossy, from_next_work_required) is modelled on Nat with U256 wrap-around made explicit and compared with rust-bitcoin on every generated store.",
        "level_note": "Trusted: Lean kernel, harness + validation::verif_hooks (verif_next_target, verif_is_timestamp_valid), SHA-256d of rust-bitcoin for header hashes (hashes are given). Proof of work (hash <= target) on mainnet/testnet cannot be mined: whole-header acceptance is exercised end-to-end on regtest only.",
        "assumptions": ["u32 overflow of prev.time + 1200 and a missing genesis header are outside the modelled domain", "Rust compares targets, Core compares nBits: a non-canonical encoding of the required target is accepted by the code (noted, not part of the property)"],
    },
    "C12": {
        "model_spec_ops": ["b validate"],
        "spec_ops": [],
        "streams": [{"name": "blk", "quick": 1500, "thorough": 20000}, {"name": "sync", "quick": 160, "thorough": 1600}],
        "rule": "blk stream: regtest blocks with 1-40 transactions (legacy and segwit) whose header is valid by construction (mined on genesis), validated by BlockValidator::validate_block in their original "
                "form and under every CVE-2012-2459 mutation per level (len = 2^j*m, m odd >= 3), dup-last, random duplicate, swap, removal, empty, witness- and scriptSig-malleated copies, planted malleated twins "
                "(same ntxid, different txid) and missing coinbase. The model recomputes the merkle root with its own SHA-256d. Distinct by (tx count, outcome vector). " + SYNC_RULE,
        "explanation": "theorems (for an arbitrary 2-to-1 hash): accept iff non-empty, coinbase first, merkle root matches, ntxids pairwise distinct, with the code's error precedence; the CVE-2012-2459 family exists at every level "
                       "(root preserved) and every such mutation is rejected as DuplicateTransactions; validateBody = validateBlockBody given check_merkle_root.",
        "technique": "Lean 4 theorems over an abstract merkle hash + executable SHA-256d in the model (test vectors by #guard) + differential correspondence with BlockValidator",
        "level_text": "Machine-checked decision logic and the merkle-duplication lemma for all transaction counts; the model's merkle root is computed by its own SHA-256d and compared with rust-bitcoin on every generated block.",
        "level_note": "Trusted: Lean kernel, harness. SHA-256 correctness of the model is validated by NIST vectors / mainnet block 170 (#guard) and the differential stream, not proved. txid/ntxid/is_coinbase are given by the library.",
        "assumptions": ["the check is on normalised txids (compute_ntxid): stricter than 'no shared txid'"],
    },
    "C15": {
        "extra_props": ["C15Spec", "C15Full", "C15FullExample", "C15FullCollision"],
        "model_spec_ops": ["c q fees"],
        "spec_ops": ["c q feesn"],
        "streams": [{"name": "ledger", "quick": 160, "thorough": 1600}, {"name": "sync", "quick": 80, "thorough": 800}],
        "rule": LEDGER_RULE,
        "explanation": "theorems: percentiles = [] or 101 values, non-decreasing, index 0/100 = min/max, nearest-rank on any sorted permutation, order independent; the input is the first <= 10000 cached fee rates "
                       "newest block first; cache semantics (hit / empty keeps previous / recompute and store).",
        "technique": "Lean 4 theorems (nearest-rank = algorithm for all inputs; selection and cache semantics) + differential correspondence of bitcoin_get_current_fee_percentiles after every step",
        "level_text": "Machine-checked for all input lists (no length bound); tie by `q fees` after every op of the ledger and sync streams (fee-paying transactions, forks, upgrades which drop the per-block cache).",
        "level_note": "Trusted: Lean kernel, harness, translator (NUM_TRANSACTIONS). u32 overflow of p*len needs len > 42,949,672 (> the 10,000 cap: proved unreachable).",
        "assumptions": [],
    },
    "C18": {
        "extra_props": ["Json"],
        "model_spec_ops": ["t "],
        "spec_ops": [],
        "streams": [{"name": "tf", "quick": 800, "thorough": 20000}],
        "rule": "tf stream: for each of the 10 explorer transforms, bodies shaped for the endpoint with whitespace / member order / extra and duplicate members varied, wrong types, negative/float/huge numbers, "
                "truncated JSON, invalid UTF-8, deep nesting, empty; text bodies (+N, N\\n, leading zeros/space, overflow, sign, letters); statuses 200/404/500/0/201/301/2^40; 0-2 headers. Distinct by the hash of the outcome vector.",
        "explanation": "theorems: no headers, status kept, body = [] or render(height) with height < 2^64, independent of headers, determined by the extracted path only (member order with distinct keys, other members, "
                       "whitespace via the parser), text endpoints accept exactly +?[0-9]+ < 2^64, render injective.",
        "technique": "Lean 4 theorems over the byte-level model of String::from_utf8 + serde_json::from_str (Model/Json.lean, 1834 vectors from the real library) and of the ten transforms + differential correspondence with the watchdog's transform_* queries (the driver parses the body itself; serde_json's value is a cross-check)",
        "level_text": "Machine-checked END TO END on body bytes: for every endpoint, status, header list and body the output has no headers, the same status and body = [] or the canonical {height:N|null}; invariant under headers, JSON whitespace, member order (distinct keys) and unrelated members, for every rendering of every JSON value within serde_json's recursion limit and float range (Props/Json.lean: transform_canonical, transform_whitespace_irrelevant, transform_member_order_irrelevant, transform_other_members_irrelevant, utf8Valid_iff).",
        "level_note": "No longer partial: the parser is inside the model and C18's former assumption ParserWF is a theorem (parserWF_parseModel). Trusted: Btc.Json.parse = from_utf8 + serde_json::from_str::<Value> (1834 #guard vectors produced by the real library + every body of every run, marked !json on disagreement). Caveat proved, not assumed: a member nested deeper than 127 or a float literal out of f64 range anywhere empties the body.",
        "assumptions": [],
    },
    "C19": {
        "extra_props": ["NetSpelling", "EndpointsFull"],
        "model_spec_ops": ["x decode"],
        "spec_ops": ["c sendtx"],
        "streams": [{"name": "txc", "quick": 3000, "thorough": 60000}, {"name": "sync", "quick": 160, "thorough": 1600}],
        "rule": "txc stream: random transactions (0-3 inputs, 0-3 outputs, legacy/segwit, witness stacks, scripts of 0-300 bytes), their exact serialisation and variants: extended by 1-5 bytes, truncated, "
                "3 single-bit flips, a one-byte length replaced by 3/5/9-byte encodings (incl. 2^32+b), mangled segwit marker/flag, garbage; each fed to consensus::deserialize::<Transaction> (what send_transaction calls) "
                "and to the Lean decoder; accepted payloads are re-encoded and compared. Distinct by (serialisation hash, outcome vector). " + SYNC_RULE,
        "explanation": "theorems: decode(encode t ++ r) = (t, r); decodeExact bs = some t -> bs = encode t (64-bit): accept iff the payload is a serialisation; trailing bytes and every strict prefix are rejected; varint canonicity; "
                       "send_transaction forwards/counts iff guards pass, cycles suffice and the payload is well-formed (Model/Endpoints.callSendTransaction, compared call by call incl. the forwarded bytes).",
        "technique": "Lean 4 round-trip and canonicity theorems for a byte-level model of rust-bitcoin's transaction codec + differential correspondence (library decoder and send_transaction endpoint)",
        "level_text": "Machine-checked for all byte strings on 64-bit usize; the 32-bit (wasm32) decoder is modelled too and shown NOT canonical (known finding F14).",
        "level_note": "Trusted: Lean kernel, harness (recorder hook for forwarded payloads). The inter-canister call itself and its failure handling are not modelled. Native harness: 64-bit usize.",
        "assumptions": ["payload elements are bytes (< 256)"],
    },
    "C14": {
        "extra_props": ["NetSpelling", "FullCor", "FullCorExample", "HeaderSlots", "GuardTable", "AddrParse", "EndpointsFull"],
        "model_spec_ops": ["c q synced"],
        "spec_ops": ["c call"],
        "streams": [{"name": "sync", "quick": 160, "thorough": 3200}],
        "rule": SYNC_RULE,
        "explanation": "theorems: guard passes iff (access enabled, network matches, sync rule); precedence of refusals; refused calls return no state and charge nothing; send_transaction exempt; "
                       "synced iff highest announced header <= best height + SYNCED_THRESHOLD (generated constant pinned to 2). Tie: every endpoint is called under random flag/network/sync states.",
        "technique": "Lean 4 theorems (decision logic of the guards stated outright over the endpoint model) + differential correspondence of gated calls",
        "level_text": "Machine-checked decision logic for all states/requests; the endpoints' composition (guards, cycles, answer) is modelled in Model/Endpoints.lean and compared call by call with the canister.",
        "level_note": "Trusted: Lean kernel, harness (verif_hooks for cycles/instruction counter), translator (SYNCED_THRESHOLD). The announced-header bookkeeping over histories is compared by the snapshot lines (C20) and through `maxnext`; get_config/get_blockchain_info/metrics have no guard parameter in the model by construction.",
        "assumptions": ["native build: a panic is the observable 'trap'; is_watchdog_caller/controller checks of set_config are wasm-only and not modelled"],
    },
    "C16": {
        "extra_props": ["FullCor", "FullCorExample", "EndpointsFull"],
        "spec_ops": ["c call"],
        "streams": [{"name": "sync", "quick": 160, "thorough": 3200}],
        "rule": SYNC_RULE,
        "explanation": "theorems: charge formulas (metered/flat/send), refusal below maximum before any charge, result <= maximum, query variants accept 0, and from the regenerated tables: "
                       "client constants >= canister default maxima for all three networks and all payload lengths.",
        "technique": "Lean 4 theorems over the charging model + generated-table theorem re-proved against the Rust sources on every run + differential correspondence of accepted cycles",
        "level_text": "Machine-checked formulas for all fee configurations / cycles / instruction counts; the client-vs-canister table theorem is regenerated from interface/src/lib.rs and ic-cdk-bitcoin-canister/src/lib.rs each run.",
        "level_note": "Trusted: Lean kernel, translator regexes, harness hooks (mock cycles balance, available-cycles override, instruction counter). base <= maximum is a side condition (holds for the default tables: proved); base > maximum underflows (panic natively, wrap in wasm release) and is outside the modelled domain.",
        "assumptions": ["the native mock of msg_cycles_available does not decrease after msg_cycles_accept; on the IC it does, which cannot matter because fee <= maximum - base"],
    },
    "C02": {
        "extra_props": ["FullCor", "FullCorExample", "SpecsExtra"],
        "model_spec_ops": ["c bestat"],
        "spec_ops": ["c bestat"],
        "streams": [{"name": "ledger", "quick": 160, "thorough": 1600}],
        "rule": LEDGER_RULE,
        "explanation": "theorems: main_chain_by_difficulty = first maximal (difficulty, length) root-to-leaf path for every tree; "
                       "info / unfiltered get_utxos / get_block_headers / fee cache refer to its last block. Spec line `bestat` compares "
                       "the tips and the balance of all endpoints with the oracle on every generated state.",
        "technique": "Lean 4 theorems (mutual structural induction over the block tree: algorithm = max-over-leaf-paths oracle) + differential correspondence canister crate vs compiled Lean model and oracle",
        "level_text": "Machine-checked: mainChain = bestPath for all trees and difficulty assignments (unbounded), twin length function, and each endpoint's tip in terms of bestPath; tie to the code by the ledger stream (model lines and oracle lines).",
        "level_note": "Trusted: Lean kernel, axioms as audited, harness+hooks, translator. The balance clause (balance = ledger sum at the best tip) is validated by the `bestat` oracle line and proved only as far as C05/C01 go. Native debug build, not wasm.",
        "assumptions": ["blocks are fed through unstable_blocks::push with mock difficulties (validation is covered by C10-C12)"],
    },
    "C17": {
        "extra_props": ["SpecsExtraC17"],
        "spec_ops": [],
        "technique": "Lean 4 theorems (decision = quorum spec, Perm-invariance, latest-round-only) + differential correspondence watchdog crate vs compiled Lean model",
        "level_text": "Machine-checked theorems over the Lean model of median/calculate_height_target/compare/calculate_target/storage for all height lists, configurations and orders (no bound); the model is tied to the watchdog crate by a differential stream that includes an exhaustive palette sub-space per target configuration.",
        "level_note": "Trusted: Lean kernel; axioms propext/Classical.choice/Quot.sound; harness + hooks watchdog::verif_hooks; translator for the five config rows. Not modelled: HTTP outcalls, timers, inter-canister calls. Domain: heights < 2^63, median >= behind threshold.",
        "streams": [{"name": "wd", "quick": 4000, "thorough": 60000, "model_is_spec": True}],
        "rule": "wd stream: for each of the 5 target configurations every result vector over the palette "
                "{fail, m-behind-1, m-behind, m, m+ahead, m+ahead+1} x 4 canister heights (exhaustive sub-space), "
                "then random configurations with 1-4 rounds (stale data, failures). A case is non-trivial/distinct by "
                "the hash of (round line, outcome).",
        "exhaustive": False,
        "explanation": "theorems: decision = quorum specification, permutation invariance, failures contribute nothing, "
                       "latest round only; model tied to watchdog crate by the wd stream through verif_hooks",
        "assumptions": ["explorer heights < 2^63 and median >= blocks_behind_threshold (the property's domain)",
                        "HTTP outcalls, timers and the inter-canister calls of the watchdog are not modelled"],
        "trusted_extra": ["watchdog::verif_hooks::{install,store_round,decide} wrap the private functions health::compare, api_access::calculate_target and the storage"],
    },
}

# what the later layers add (appended to the per-property explanations)
FULL = (" Lifted to EVERY MESSAGE HISTORY of the canister (Spec/FullSys.lean: heartbeats with any budgets incl. pauses in the middle of a block, replies of any kind, "
        "endpoint calls, set_config, upgrades; traps roll back): fullReachable_inv + the corollaries in Props/ReachAll, Props/FullSys, Props/FullCor, under the single "
        "environment assumption Trusted (a block that passes the canister's own validation extends a transaction-valid, txid-unique chain with a fresh hash).")
EXTRA_EXPL = {
    "C01": FULL + " Blocks reach the model as raw consensus bytes: hash, txids, sizes, coinbase/OP_RETURN flags and address texts are computed by the model (Props/BlockCodec: round trip, canonicity, address shapes).",
    "C02": FULL, "C03": FULL + " Finality over message histories: stable chain append-only, block at a stable height never changes, every pop decided by the rule and along the served chain, fork blocks leave the tree only in an ingesting heartbeat.",
    "C04": FULL, "C05": FULL, "C06": FULL, "C07": FULL,
    "C08": FULL + " While an ingestion is paused, along any trusted message schedule that does not extend the stable chain every answer equals the pre-ingestion answer and no request is issued (c08_answers_are_pre_ingestion_answers, c08_no_request_while_ingesting).",
    "C09": FULL + " The upgrade message is a step of the ledger system, answers and fee percentiles unchanged, next request initial (c09_upgrade_message); F13 characterised exactly (heartbeat_trap_is_F13: the ONLY heartbeat trap possible in a reachable configuration).",
    "C10": " Processing heartbeat = pushes of the accepted prefix + announced-header insertions, rejected/undecodable blobs move exactly one counter (FullSys.processBlocks_accepted, C13Full.response_applied_once, no_reapplication); the announced-header loop's instruction-threshold break is modelled (Props/HeaderSlots).",
    "C13": " Liveness (Props/C13Live, C13Full): no deadlock with explicit schedule and bound, fairness, progress measure, rejects never block, every complete response applied exactly once - for the message-level system with all ledger hypotheses discharged.",
    "C14": FULL + " NetworkInRequest spellings: conversion table regenerated from source, every spelling names its network (Props/NetSpelling). Dropped announced headers (instruction break) can only make the sync gate lag (HeaderSlots.isSynced_antitone_slots).",
    "C15": " History-only specification Spec.recentFeeRates (fee = spent outputs resolved in the history - outputs) and refinement feePercentiles = feeAnswerSpec incl. the cache, for every reachable state (Props/C15Spec); fee percentiles never trap in any message history (FullSys.fee_never_traps).",
    "C16": FULL, "C19": " NetworkInRequest spellings as for C14 (Props/NetSpelling).",
    "C20": FULL,
}
for _k, _v in EXTRA_EXPL.items():
    PROPS[_k]["explanation"] = PROPS[_k]["explanation"] + _v
