"""Per-property configuration of ./check: which correspondence streams are run and how."""

TRUSTED_BASE = [
    "Lean 4.33.0 kernel (lake build; leanchecker in the thorough tier)",
    "axioms: at most propext, Classical.choice, Quot.sound (audited with #print axioms on every run)",
    "correspondence check: Rust harness (/verif/harness) running /repo's real crates vs the compiled Lean driver on the same op lines (differential testing, not proof)",
    "translator tools/extract_consts.py (regex extraction of constants/tables into BtcModel/Gen)",
]

HOOK_COMMITS = ["5384d917", "0f73256d", "53d65f90", "1047dece"]

NOT_CLAIMED = {}

LEDGER_RULE = ("ledger stream: per case a fresh canister (network in {regtest x2, mainnet, testnet}, threshold in {1,1,2,2,3,4,6,144}, "
               "difficulty mode in {equal, small, heavy-vs-light, ties}), then 8-40 (quick) / 20-120 (thorough) random steps: "
               "push a transaction-valid block on a random alive parent (biased to tips / near the anchor; spends of stable and unstable outputs, "
               "same-block spends, re-confirmation of another fork's transaction, zero-value/OP_RETURN/non-standard/oversized scripts, prefix-pair addresses), "
               "ingestion rounds with unlimited or 0-12 step budgets, and query batches (all pages followed with page size 1/2/3/5/1000, every c up to length+2, "
               "header ranges up to tip+2, fees, bookkeeping snapshot, stable digest) with the specification lines ledgerat/bestat/cutat/sumat. "
               "A case is non-trivial if it pushed >= 3 blocks; distinct by the hash of (network, threshold, mode, parent choices, budgets).")

SYNC_RULE = ("sync stream: per case a fresh regtest canister (threshold 1-4, default or random fee table, manual async mode), then 12-45 (quick) / 30-120 (thorough) "
             "random messages: heartbeats with unlimited or 0-9 step budgets (suspended at the get_successors await; further heartbeats overlap), scripted replies of the block "
             "source (complete with 0-3 mined transaction-valid blocks on random parents plus bad elements at random positions: garbage, truncated, duplicate, orphan/redelivered, "
             "bad merkle root / duplicated last transaction, old timestamp, wrong bits, stable-only parent; partial replies split into 1+k pages, k in {0,1,2,3,5}; rejects; "
             "announced headers incl. garbage/duplicate/invalid), pre/post_upgrade with or without a threshold argument, set_config flips, gated endpoint calls with chosen "
             "attached cycles and instruction counts, send_transaction with exact/extended/truncated/bit-flipped/garbage payloads, and the ledger stream's query batch. "
             "A case is distinct by the hash of its message kinds and budgets.")

PROPS = {
    "C14": {
        "streams": [{"name": "sync", "quick": 320, "thorough": 3200}],
        "rule": SYNC_RULE,
        "explanation": "theorems: guard passes iff (access enabled, network matches, sync rule); precedence of refusals; refused calls return no state and charge nothing; send_transaction exempt; "
                       "synced iff highest announced header <= best height + SYNCED_THRESHOLD (generated constant pinned to 2). Tie: every endpoint is called under random flag/network/sync states.",
        "technique": "Lean 4 theorems (decision logic of the guards stated outright over the endpoint model) + differential correspondence of gated calls",
        "level_text": "Machine-checked decision logic for all states/requests; the endpoints' composition (guards, cycles, answer) is modelled in Model/Endpoints.lean and compared call by call with the canister.",
        "level_note": "Trusted: Lean kernel, harness (verif_hooks for cycles/instruction counter), translator (SYNCED_THRESHOLD). The announced-header bookkeeping over histories is compared by the snapshot lines (C20) and through `maxnext`; get_config/get_blockchain_info/metrics have no guard parameter in the model by construction.",
        "assumptions": ["native build: a panic is the observable 'trap'; is_watchdog_caller/controller checks of set_config are wasm-only and not modelled"],
    },
    "C16": {
        "streams": [{"name": "sync", "quick": 320, "thorough": 3200}],
        "rule": SYNC_RULE,
        "explanation": "theorems: charge formulas (metered/flat/send), refusal below maximum before any charge, result <= maximum, query variants accept 0, and from the regenerated tables: "
                       "client constants >= canister default maxima for all three networks and all payload lengths.",
        "technique": "Lean 4 theorems over the charging model + generated-table theorem re-proved against the Rust sources on every run + differential correspondence of accepted cycles",
        "level_text": "Machine-checked formulas for all fee configurations / cycles / instruction counts; the client-vs-canister table theorem is regenerated from interface/src/lib.rs and ic-cdk-bitcoin-canister/src/lib.rs each run.",
        "level_note": "Trusted: Lean kernel, translator regexes, harness hooks (mock cycles balance, available-cycles override, instruction counter). base <= maximum is a side condition (holds for the default tables: proved); base > maximum underflows (panic natively, wrap in wasm release) and is outside the modelled domain.",
        "assumptions": ["the native mock of msg_cycles_available does not decrease after msg_cycles_accept; on the IC it does, which cannot matter because fee <= maximum - base"],
    },
    "C02": {
        "streams": [{"name": "ledger", "quick": 160, "thorough": 1600}],
        "rule": LEDGER_RULE,
        "explanation": "theorems: main_chain_by_difficulty = first maximal (difficulty, length) root-to-leaf path for every tree; "
                       "info / unfiltered get_utxos / get_block_headers / fee cache refer to its last block. Spec line `bestat` compares "
                       "the tips and the balance of all endpoints with the oracle on every generated state.",
        "technique": "Lean 4 theorems (mutual structural induction over the block tree: algorithm = max-over-leaf-paths oracle) + differential correspondence canister crate vs compiled Lean model and oracle",
        "level_text": "Machine-checked: mainChain = bestPath for all trees and difficulty assignments (unbounded), twin length function, and each endpoint's tip in terms of bestPath; tie to the code by the ledger stream (model lines and oracle lines).",
        "level_note": "Trusted: Lean kernel, axioms as audited, harness+hooks, translator. The balance clause (balance = ledger sum at the best tip) is validated by the `bestat` oracle line and proved only as far as C05/C01 go. Native debug build, not wasm.",
        "assumptions": ["blocks are fed through unstable_blocks::push with mock difficulties (validation is covered by C10-C12)"],
    },
    "C17": {
        "technique": "Lean 4 theorems (decision = quorum spec, Perm-invariance, latest-round-only) + differential correspondence watchdog crate vs compiled Lean model",
        "level_text": "Machine-checked theorems over the Lean model of median/calculate_height_target/compare/calculate_target/storage for all height lists, configurations and orders (no bound); the model is tied to the watchdog crate by a differential stream that includes an exhaustive palette sub-space per target configuration.",
        "level_note": "Trusted: Lean kernel; axioms propext/Classical.choice/Quot.sound; harness + hooks watchdog::verif_hooks; translator for the five config rows. Not modelled: HTTP outcalls, timers, inter-canister calls. Domain: heights < 2^63, median >= behind threshold.",
        "streams": [{"name": "wd", "quick": 4000, "thorough": 60000, "model_is_spec": True}],
        "rule": "wd stream: for each of the 5 target configurations every result vector over the palette "
                "{fail, m-behind-1, m-behind, m, m+ahead, m+ahead+1} x 4 canister heights (exhaustive sub-space), "
                "then random configurations with 1-4 rounds (stale data, failures). A case is non-trivial/distinct by "
                "the hash of (round line, outcome).",
        "exhaustive": False,
        "explanation": "theorems: decision = quorum specification, permutation invariance, failures contribute nothing, "
                       "latest round only; model tied to watchdog crate by the wd stream through verif_hooks",
        "assumptions": ["explorer heights < 2^63 and median >= blocks_behind_threshold (the property's domain)",
                        "HTTP outcalls, timers and the inter-canister calls of the watchdog are not modelled"],
        "trusted_extra": ["watchdog::verif_hooks::{install,store_round,decide} wrap the private functions health::compare, api_access::calculate_target and the storage"],
    },
}
