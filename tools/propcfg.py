"""Per-property configuration of ./check: which correspondence streams are run and how."""

TRUSTED_BASE = [
    "Lean 4.33.0 kernel (lake build; leanchecker in the thorough tier)",
    "axioms: at most propext, Classical.choice, Quot.sound (audited with #print axioms on every run)",
    "correspondence check: Rust harness (/verif/harness) running /repo's real crates vs the compiled Lean driver on the same op lines (differential testing, not proof)",
    "translator tools/extract_consts.py (regex extraction of constants/tables into BtcModel/Gen)",
]

HOOK_COMMITS = ["5384d917", "0f73256d", "53d65f90", "1047dece"]

NOT_CLAIMED = {}

PROPS = {
    "C17": {
        "technique": "Lean 4 theorems (decision = quorum spec, Perm-invariance, latest-round-only) + differential correspondence watchdog crate vs compiled Lean model",
        "level_text": "Machine-checked theorems over the Lean model of median/calculate_height_target/compare/calculate_target/storage for all height lists, configurations and orders (no bound); the model is tied to the watchdog crate by a differential stream that includes an exhaustive palette sub-space per target configuration.",
        "level_note": "Trusted: Lean kernel; axioms propext/Classical.choice/Quot.sound; harness + hooks watchdog::verif_hooks; translator for the five config rows. Not modelled: HTTP outcalls, timers, inter-canister calls. Domain: heights < 2^63, median >= behind threshold.",
        "streams": [{"name": "wd", "quick": 4000, "thorough": 60000, "model_is_spec": True}],
        "rule": "wd stream: for each of the 5 target configurations every result vector over the palette "
                "{fail, m-behind-1, m-behind, m, m+ahead, m+ahead+1} x 4 canister heights (exhaustive sub-space), "
                "then random configurations with 1-4 rounds (stale data, failures). A case is non-trivial/distinct by "
                "the hash of (round line, outcome).",
        "exhaustive": False,
        "explanation": "theorems: decision = quorum specification, permutation invariance, failures contribute nothing, "
                       "latest round only; model tied to watchdog crate by the wd stream through verif_hooks",
        "assumptions": ["explorer heights < 2^63 and median >= blocks_behind_threshold (the property's domain)",
                        "HTTP outcalls, timers and the inter-canister calls of the watchdog are not modelled"],
        "trusted_extra": ["watchdog::verif_hooks::{install,store_round,decide} wrap the private functions health::compare, api_access::calculate_target and the storage"],
    },
}
