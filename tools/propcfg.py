"""Per-property configuration of ./check: which correspondence streams are run and how."""

TRUSTED_BASE = [
    "Lean 4.33.0 kernel (lake build; leanchecker in the thorough tier)",
    "axioms: at most propext, Classical.choice, Quot.sound (audited with #print axioms on every run)",
    "correspondence check: Rust harness (/verif/harness) running /repo's real crates vs the compiled Lean driver on the same op lines (differential testing, not proof)",
    "translator tools/extract_consts.py (regex extraction of constants/tables into BtcModel/Gen)",
]

HOOK_COMMITS = ["5384d917", "0f73256d", "53d65f90", "1047dece"]

NOT_CLAIMED = {}

LEDGER_RULE = ("ledger stream: per case a fresh canister (network in {regtest x2, mainnet, testnet}, threshold in {1,1,2,2,3,4,6,144}, "
               "difficulty mode in {equal, small, heavy-vs-light, ties}), then 8-40 (quick) / 20-120 (thorough) random steps: "
               "push a transaction-valid block on a random alive parent (biased to tips / near the anchor; spends of stable and unstable outputs, "
               "same-block spends, re-confirmation of another fork's transaction, zero-value/OP_RETURN/non-standard/oversized scripts, prefix-pair addresses), "
               "ingestion rounds with unlimited or 0-12 step budgets, and query batches (all pages followed with page size 1/2/3/5/1000, every c up to length+2, "
               "header ranges up to tip+2, fees, bookkeeping snapshot, stable digest) with the specification lines ledgerat/bestat/cutat/sumat. "
               "A case is non-trivial if it pushed >= 3 blocks; distinct by the hash of (network, threshold, mode, parent choices, budgets).")

PROPS = {
    "C02": {
        "streams": [{"name": "ledger", "quick": 160, "thorough": 1600}],
        "rule": LEDGER_RULE,
        "explanation": "theorems: main_chain_by_difficulty = first maximal (difficulty, length) root-to-leaf path for every tree; "
                       "info / unfiltered get_utxos / get_block_headers / fee cache refer to its last block. Spec line `bestat` compares "
                       "the tips and the balance of all endpoints with the oracle on every generated state.",
        "technique": "Lean 4 theorems (mutual structural induction over the block tree: algorithm = max-over-leaf-paths oracle) + differential correspondence canister crate vs compiled Lean model and oracle",
        "level_text": "Machine-checked: mainChain = bestPath for all trees and difficulty assignments (unbounded), twin length function, and each endpoint's tip in terms of bestPath; tie to the code by the ledger stream (model lines and oracle lines).",
        "level_note": "Trusted: Lean kernel, axioms as audited, harness+hooks, translator. The balance clause (balance = ledger sum at the best tip) is validated by the `bestat` oracle line and proved only as far as C05/C01 go. Native debug build, not wasm.",
        "assumptions": ["blocks are fed through unstable_blocks::push with mock difficulties (validation is covered by C10-C12)"],
    },
    "C17": {
        "technique": "Lean 4 theorems (decision = quorum spec, Perm-invariance, latest-round-only) + differential correspondence watchdog crate vs compiled Lean model",
        "level_text": "Machine-checked theorems over the Lean model of median/calculate_height_target/compare/calculate_target/storage for all height lists, configurations and orders (no bound); the model is tied to the watchdog crate by a differential stream that includes an exhaustive palette sub-space per target configuration.",
        "level_note": "Trusted: Lean kernel; axioms propext/Classical.choice/Quot.sound; harness + hooks watchdog::verif_hooks; translator for the five config rows. Not modelled: HTTP outcalls, timers, inter-canister calls. Domain: heights < 2^63, median >= behind threshold.",
        "streams": [{"name": "wd", "quick": 4000, "thorough": 60000, "model_is_spec": True}],
        "rule": "wd stream: for each of the 5 target configurations every result vector over the palette "
                "{fail, m-behind-1, m-behind, m, m+ahead, m+ahead+1} x 4 canister heights (exhaustive sub-space), "
                "then random configurations with 1-4 rounds (stale data, failures). A case is non-trivial/distinct by "
                "the hash of (round line, outcome).",
        "exhaustive": False,
        "explanation": "theorems: decision = quorum specification, permutation invariance, failures contribute nothing, "
                       "latest round only; model tied to watchdog crate by the wd stream through verif_hooks",
        "assumptions": ["explorer heights < 2^63 and median >= blocks_behind_threshold (the property's domain)",
                        "HTTP outcalls, timers and the inter-canister calls of the watchdog are not modelled"],
        "trusted_extra": ["watchdog::verif_hooks::{install,store_round,decide} wrap the private functions health::compare, api_access::calculate_target and the storage"],
    },
}
