#!/usr/bin/env python3
"""Writes MANIFEST.json from tools/propcfg.py (claimed properties) + the fixed property list."""
import json, os, sys
VERIF = os.path.dirname(os.path.dirname(os.path.abspath(__file__)))
sys.path.insert(0, os.path.join(VERIF, "tools"))
import propcfg
props = [json.loads(l) for l in open(os.path.join(VERIF, "properties.jsonl"))]
checks = []
na = []
for p in props:
    pid = p["id"]
    cfg = propcfg.PROPS.get(pid)
    if cfg is None or cfg.get("disabled"):
        na.append({"property_id": pid, "reason": propcfg.NOT_CLAIMED.get(pid, "check under construction in this session (model/theorems not yet committed)")})
        continue
    checks.append({
        "property_id": pid,
        "quick_cmd": f"./check {pid} --tier quick",
        "thorough_cmd": f"./check {pid} --tier thorough",
        "evidence_file": f"evidence/{pid}.json",
        "replay_cmd_template": f"./check {pid} --replay {{path}}",
        "engine": "lean4-proof+correspondence",
        "level_claimed": {"category": "proof", "text": cfg["level_text"], "design_ref": cfg.get("design_ref", "DESIGN.md §7 " + pid)},
        "level_note": cfg["level_note"],
        "technique": cfg["technique"],
    })
manifest = {
    "version": 1,
    "setup_cmd": "./setup.sh",
    "hooks": {
        "guard": "dfinity_bitcoin_canister_verif",
        "enable": "RUSTFLAGS=--cfg dfinity_bitcoin_canister_verif (set in /verif/harness/.cargo/config.toml; the harness path-depends on /repo's crates)",
        "baseline_off_cmd": "cd /repo && cargo nextest run --workspace --no-fail-fast --tool-config-file pb:/w/lib/nextest.toml --profile pb --test-threads 8 --offline",
        "source_commits": propcfg.HOOK_COMMITS,
        "add_only": True,
    },
    "engines": [{
        "name": "lean4-proof+correspondence",
        "path": "check",
        "serves_properties": [c["property_id"] for c in checks],
        "kind_free_text": "Lean 4 theorems about a hand-written executable model (lean/BtcModel), tied to /repo by a Rust differential harness (harness/) that drives the real crates and the compiled Lean driver with the same op lines, plus a translator (tools/extract_consts.py) regenerating constants/tables into BtcModel/Gen on every run",
    }],
    "checks": checks,
    "not_applicable": na,
    "notes": "See DESIGN.md. Every check regenerates Gen/*.lean from /repo, rebuilds the property's Lean theorems (lake), audits axioms, rebuilds the harness against /repo's working tree with the cfg guard on, and runs the property's correspondence streams.",
}
json.dump(manifest, open(os.path.join(VERIF, "MANIFEST.json"), "w"), indent=1)
print("claimed:", [c["property_id"] for c in checks])
