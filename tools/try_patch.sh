#!/bin/bash
# try_patch.sh <patch.diff> <stream> <cases> [seed]: applies a patch to /repo, rebuilds the harness,
# runs one correspondence stream (16 shards) against the Lean driver, reports mismatches, reverts.
set -u
PATCH=$1; STREAM=$2; CASES=$3; SEED=${4:-1}
cd /repo && git apply "$PATCH" || { echo "patch does not apply"; exit 2; }
trap 'git -C /repo checkout -- . ; git -C /repo clean -fdq canister/src canister/tests 2>/dev/null' EXIT
cd /verif/harness && cargo build --offline 2>&1 | grep -E "^error" -A8 | head -20
OUT=/tmp/trypatch; rm -rf $OUT; mkdir -p $OUT
PER=$((CASES/16)); [ $PER -lt 1 ] && PER=1
for k in $(seq 0 15); do /verif/.cache/target/debug/verif-harness $STREAM --seed $((SEED*1000+k)) --cases $PER --out $OUT/s$k --shard $k --shards 16 >/dev/null 2>$OUT/err$k & done; wait
TOTAL=0
for k in $(seq 0 15); do
  [ -f $OUT/s$k/ops.txt ] || { echo "shard $k crashed: $(tail -2 $OUT/err$k)"; continue; }
  /verif/lean/.lake/build/bin/btcmodel $OUT/s$k/ops.txt > $OUT/s$k/model.txt
  R=$(python3 /verif/tools/difflines.py $OUT/s$k 1 | tail -1); N=$(echo "$R" | cut -d' ' -f1); TOTAL=$((TOTAL+N))
  [ "$N" != "0" ] && [ -z "${SHOWN:-}" ] && { python3 /verif/tools/difflines.py $OUT/s$k 2 | cut -c1-600; SHOWN=1; }
done
echo "TOTAL mismatching lines (impl vs model or spec): $TOTAL"
