#!/usr/bin/env python3
"""keep_mutant.py <ID> <n> <caught_by...>: copies a confirmed seeded change from /tmp/mut/out into /verif/seeded/<ID><n>/
(patch.diff, demo.diff, meta.json extended with what was run to confirm it and which checks catch it)."""
import json, os, shutil, sys, re
ID, n = sys.argv[1], sys.argv[2] if sys.argv[2] != "1" else ""
caught = sys.argv[3:]
src = f"/tmp/mut/out/{ID}"
name = f"{ID}-{n or '1'}"
dst = f"/verif/seeded/{name}"
os.makedirs(dst, exist_ok=True)
shutil.copy(f"{src}/patch{n}.diff", f"{dst}/patch.diff")
shutil.copy(f"{src}/demo{n}.diff", f"{dst}/demo.diff")
meta = json.load(open(f"{src}/meta{n}.json"))
log = open("/tmp/mut/confirm_all.log").read() if os.path.exists("/tmp/mut/confirm_all.log") else ""
line = [l for l in log.splitlines() if l.startswith(f"{ID}{n} ")]
meta["confirmed_by_main"] = line[-1] if line else "not confirmed"
meta["what_i_ran"] = (f"tools/confirm_mutant.sh {ID} {n}: in the scratch worktree (clean checkout of /repo HEAD) applied demo.diff and ran demo_cmd (must pass), "
                      "applied patch.diff and ran it again (must fail), then `cargo test --offline -p ic-btc-canister --lib` (or the touched crate) with patch.diff only and compared with the untouched tree "
                      "(202 passed / 2 environmental failures on both); tools/try_patch.sh applied patch.diff to /repo, ran the named stream, undid it")
meta["caught_by"] = caught
json.dump(meta, open(f"{dst}/meta.json", "w"), indent=1)
print("kept", dst)
