#!/bin/bash
# confirm_mutant.sh <ID> <n>   (n = "" | 2 | 3): confirms a seeded change in its scratch worktree:
#  demo passes on the clean tree, fails with the patch; the crate's existing lib tests give the same result with the patch.
ID=$1; N=${2:-}
W=/tmp/mut/$ID; O=/tmp/mut/out/$ID; export CARGO_TARGET_DIR=/tmp/mut/target-$ID CARGO_NET_OFFLINE=true
cd $W && git checkout -q -- . && git clean -fdq
CMD=$(python3 -c "import json;print(json.load(open('$O/meta$N.json'))['demo_cmd'])")
git apply $O/demo$N.diff || { echo "$ID$N demo does not apply"; exit 1; }
( eval "$CMD" ) > $O/confirm$N.clean.log 2>&1; R1=$?
git apply $O/patch$N.diff || { echo "$ID$N patch does not apply"; exit 1; }
( eval "$CMD" ) > $O/confirm$N.patched.log 2>&1; R2=$?
# existing tests of the canister crate with the patch only
git checkout -q -- . && git clean -fdq && git apply $O/patch$N.diff
PKG=$(echo "$CMD" | grep -oE -- "-p [a-z-]+" | head -1 | cut -d' ' -f2)
if [ "$PKG" = "ic-btc-canister" ]; then SUITEARGS="-p ic-btc-canister --lib"; else SUITEARGS="-p $PKG"; fi
cargo test --offline $SUITEARGS --no-fail-fast > $O/confirm$N.suite.log 2>&1
SUITE=$(grep -E "^test result" $O/confirm$N.suite.log | tr '\n' ' ' | sed 's/finished in [0-9.]*s//g')
git checkout -q -- . && git clean -fdq
echo "$ID$N demo_clean_rc=$R1 demo_patched_rc=$R2 suite_with_patch: $SUITE"
