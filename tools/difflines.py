#!/usr/bin/env python3
"""difflines.py <dir> [max]: show impl-vs-model mismatches of a harness run directory."""
import sys
from collections import Counter
d=sys.argv[1]; mx=int(sys.argv[2]) if len(sys.argv)>2 else 6
ops=open(d+'/ops.txt',errors='replace').read().split('\n')
imp=open(d+'/impl.txt',errors='replace').read().split('\n')
mod=open(d+'/model.txt',errors='replace').read().split('\n')
n=0; kinds=Counter(); cs=0
for i,(o,a,m) in enumerate(zip(ops,imp,mod)):
    if o.startswith('case '): cs=i
    parts=m.split(' ## ')
    mm=parts[0]
    if a!=mm or (len(parts)>1 and a!=parts[1]):
        kinds[' '.join(o.split(' ')[:2])]+=1
        if n<mx:
            print(f'--- line {i} (case at {cs}: {ops[cs]})'); print('OP   ',o[:220]); print('IMPL ',a[:500]); print('MODEL',mm[:500])
        n+=1
print(n,'mismatches of',len(ops), dict(kinds), 'lens', len(ops),len(imp),len(mod))
