#!/bin/bash
# rig_run.sh <slot> <label> <patchfile> <prop> [tier]
# Runs the real `./check <prop>` against a copy of /repo with <patchfile> applied, in a private mount
# namespace in which that copy is mounted on /repo and a copy of /verif on /verif, so that several
# seeded changes can be tried at the same time and /repo itself is never touched.
K=$1; LABEL=$2; PATCH=$3; PROP=$4; TIER=${5:-quick}
S=/tmp/rig; mkdir -p $S/logs
rsync -a --delete --exclude target /repo/ $S/repo-$K/
rsync -a --delete --exclude .cache/runs --exclude seeded /verif/ $S/verif-$K/
unshare -m bash -c "
  mount --bind $S/repo-$K /repo && mount --bind $S/verif-$K /verif && cd /verif &&
  if [ "$PATCH" != "-" ]; then git -C /repo apply $PATCH || { echo PATCH-DOES-NOT-APPLY; exit 3; }; fi
  ./check $PROP --tier $TIER; rc=\$?
  cp -r /verif/replays $S/logs/$LABEL.$PROP.replays 2>/dev/null
  exit \$rc" > $S/logs/$LABEL.$PROP.log 2>&1
RC=$?
echo "$LABEL $PROP rc=$RC $(grep -E '^(VIOLATION|OK|KNOWN|BROKEN|ERROR)' $S/logs/$LABEL.$PROP.log | grep -v KNOWN | head -3 | tr '\n' ' ' | cut -c1-300)"
